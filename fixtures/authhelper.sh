#!/bin/sh
# Password helper for keymaster's external_auth_command backend, used by the simulation harness.
# usage: authhelper.sh <username>   (password on stdin; control file named by $VF_AUTHHELPER_CTL)
# control file: "mode=ok|kill|exit3" and one "user <name> <password>" line per account
ctl="$VF_AUTHHELPER_CTL"
pw=$(cat)
mode=$(sed -n 's/^mode=//p' "$ctl" 2>/dev/null)
case "$mode" in
  kill) kill -9 $$ ;;   # the helper dies from a signal (OOM killer)
  exit3) exit 3 ;;      # the helper fails for a reason of its own
esac
want=$(sed -n "s/^user $1 //p" "$ctl" 2>/dev/null)
[ -n "$want" ] && [ "$pw" = "$want" ] && exit 0
exit 1
