# source me: offline Go environment used by every /verif command
export GOFLAGS=-mod=mod GOPROXY=off GOSUMDB=off GOTOOLCHAIN=local GONOSUMDB='*' GONOSUMCHECK=1 GOFLAGS=-mod=mod
export VF_GO=${VF_GO:-go1.26.8}
