package main

// vfgen: reads the CURRENT sources under /repo and produces, outside /repo, the
// overlay that injects the simulation harness into the daemon's package main.
// It only ever inserts statements / adds files; nothing in /repo is written.

import (
	"regexp"
	"bytes"
	"encoding/json"
	"fmt"
	"go/ast"
	"go/format"
	"go/parser"
	"go/printer"
	"go/token"
	"os"
	"path/filepath"
	"sort"
	"strings"
)

const hookImportPath = "github.com/Cloud-Foundations/keymaster/zz_vfhook"

type entryHook struct {
	File string // relative to repo
	Recv string // "" or receiver type name (without *)
	Func string
	Var  string // vfhook variable name
	Observe bool // the hook only watches: the function goes on after it (default: the hook replaces the function)
	Call string // "pkg.Func": instead of a function entry, every call of pkg.Func in the file becomes vfhook.<Var>(same arguments)
}

var entryHooks = []entryHook{
	// the directory is simulated at the wire for password checks: the TLS dial of lib/authutil is the seam, the real
	// gopkg.in/ldap.v2 client speaks LDAP (BER) with the simulated server over an in-bubble pipe
	{File: "lib/authutil/authutil.go", Call: "tls.DialWithDialer", Var: "LDAPDial"},
	{File: "lib/authutil/authutil.go", Recv: "", Func: "GetLDAPUserGroups", Var: "GetLDAPUserGroups"},
	{File: "lib/authutil/authutil.go", Recv: "", Func: "GetLDAPUserAttributes", Var: "GetLDAPUserAttributes"},
	// the VIP service is simulated at the wire: the real request building and response evaluation of lib/vip run
	{File: "lib/vip/vip.go", Recv: "Client", Func: "postBytesVip", Var: "VipPostBytes"},
	{File: "keymasterd/eventnotifier/impl.go", Recv: "EventNotifier", Func: "publishCert", Var: "EventPublishCert", Observe: true},
}

type overlayJSON struct {
	Replace map[string]string `json:"Replace"`
}

type genOut struct {
	Scratch string
	Overlay string
	ModFile string
	Routes  int
	Yields  int
	Hooks   int
}

func generate(repo, verif, scratch string) (*genOut, error) {
	out := &genOut{Scratch: scratch}
	if err := os.MkdirAll(filepath.Join(scratch, "inst"), 0o755); err != nil {
		return nil, err
	}
	ov := overlayJSON{Replace: map[string]string{}}

	// 1. harness files -> package main of the daemon
	hfiles, _ := filepath.Glob(filepath.Join(verif, "harness", "keymasterd", "*.go"))
	sort.Strings(hfiles)
	if len(hfiles) == 0 {
		return nil, fmt.Errorf("no harness files")
	}
	for _, f := range hfiles {
		base := strings.TrimSuffix(filepath.Base(f), ".go")
		ov.Replace[filepath.Join(repo, "cmd", "keymasterd", "zz_vf_"+base+"_test.go")] = f
	}
	// 2. vfhook package (overlay only)
	hk, _ := filepath.Glob(filepath.Join(verif, "harness", "vfhook", "*.go"))
	for _, f := range hk {
		ov.Replace[filepath.Join(repo, "zz_vfhook", filepath.Base(f))] = f
	}
	// 2b. shim files for library packages (exporting unexported pieces)
	shims, _ := filepath.Glob(filepath.Join(verif, "harness", "shims", "*", "*.go"))
	for _, f := range shims {
		// directory name encodes the package path with "__" for "/"
		pkg := strings.ReplaceAll(filepath.Base(filepath.Dir(f)), "__", "/")
		ov.Replace[filepath.Join(repo, pkg, "zz_vf_"+filepath.Base(f))] = f
	}

	// 3. yields in cmd/keymasterd/*.go
	srcs, _ := filepath.Glob(filepath.Join(repo, "cmd", "keymasterd", "*.go"))
	sort.Strings(srcs)
	sharedGlobals = map[string]bool{}
	if gl, err := findSyncMapGlobals(srcs); err != nil {
		return nil, err
	} else {
		for _, n := range gl {
			sharedGlobals[n] = true
		}
	}
	for _, f := range srcs {
		if strings.HasSuffix(f, "_test.go") {
			// the repository's own tests are not part of the simulation binary
			// (one of them opens a fixed TCP port in init())
			ov.Replace[f] = ""
			continue
		}
		n, data, err := instrumentYields(f)
		if err != nil {
			return nil, fmt.Errorf("instrument %s: %w", f, err)
		}
		if n == 0 {
			continue
		}
		out.Yields += n
		dst := filepath.Join(scratch, "inst", "kmd_"+filepath.Base(f))
		if err := os.WriteFile(dst, data, 0o644); err != nil {
			return nil, err
		}
		ov.Replace[f] = dst
	}
	if out.Yields == 0 {
		return nil, fmt.Errorf("no yield points found in cmd/keymasterd (source layout changed?)")
	}
	// 3a. internally synchronised library packages the daemon links: a scheduling point after every lock that
	// is released in the middle of a function (a lock held to the end through defer creates none)
	for _, pkg := range libYieldPackages {
		lsrcs, _ := filepath.Glob(filepath.Join(repo, pkg, "*.go"))
		sort.Strings(lsrcs)
		for _, f := range lsrcs {
			if strings.HasSuffix(f, "_test.go") {
				continue
			}
			n, data, err := instrumentUnlockYields(f, pkg)
			if err != nil {
				return nil, fmt.Errorf("instrument %s: %w", f, err)
			}
			if n == 0 {
				continue
			}
			out.Yields += n
			dst := filepath.Join(scratch, "inst", "lib_"+strings.ReplaceAll(pkg, "/", "_")+"_"+filepath.Base(f))
			if err := os.WriteFile(dst, data, 0o644); err != nil {
				return nil, err
			}
			ov.Replace[f] = dst
		}
	}
	// 3a'. the client's agent connection: net.Dial in lib/client/sshagent goes to the simulated transport
	// (vfhook.ClientDial: the real net.Dial unless the harness installs one); everything above the dial is real
	{
		asrcs, _ := filepath.Glob(filepath.Join(repo, "lib", "client", "sshagent", "*.go"))
		sort.Strings(asrcs)
		dials := 0
		for _, f := range asrcs {
			if strings.HasSuffix(f, "_test.go") {
				continue
			}
			n, data, err := rewriteDials(f)
			if err != nil {
				return nil, fmt.Errorf("instrument %s: %w", f, err)
			}
			if n == 0 {
				continue
			}
			dials += n
			dst := filepath.Join(scratch, "inst", "lib_client_sshagent_"+filepath.Base(f))
			if err := os.WriteFile(dst, data, 0o644); err != nil {
				return nil, err
			}
			ov.Replace[f] = dst
		}
		if dials == 0 {
			return nil, fmt.Errorf("no net.Dial found in lib/client/sshagent (source layout changed?)")
		}
		out.Hooks += dials
	}
	// 3b. package-level sync.Map variables of the daemon are process-global state
	// that must not leak from one simulated run into the next: generate a reset
	resets, err := findSyncMapGlobals(srcs)
	if err != nil {
		return nil, err
	}
	sort.Strings(resets)
	var rb strings.Builder
	rb.WriteString("// Code generated by vfgen. DO NOT EDIT.\npackage main\n\nimport \"sync\"\n\nvar _ sync.Map\n\nfunc vfResetGlobals() {\n")
	for _, n := range resets {
		rb.WriteString("\t" + n + " = sync.Map{}\n")
	}
	rb.WriteString("}\n")
	gdst := filepath.Join(scratch, "inst", "globals_test.go")
	if err := os.WriteFile(gdst, []byte(rb.String()), 0o644); err != nil {
		return nil, err
	}
	ov.Replace[filepath.Join(repo, "cmd", "keymasterd", "zz_vf_globals_test.go")] = gdst

	// 4. entry hooks
	byFile := map[string][]entryHook{}
	for _, h := range entryHooks {
		byFile[h.File] = append(byFile[h.File], h)
	}
	var hookFiles []string
	for f := range byFile {
		hookFiles = append(hookFiles, f)
	}
	sort.Strings(hookFiles)
	for _, rel := range hookFiles {
		src := filepath.Join(repo, rel)
		data, n, err := instrumentEntryHooks(src, byFile[rel])
		if err != nil {
			return nil, fmt.Errorf("entry hooks %s: %w", rel, err)
		}
		out.Hooks += n
		dst := filepath.Join(scratch, "inst", strings.ReplaceAll(rel, "/", "_"))
		if err := os.WriteFile(dst, data, 0o644); err != nil {
			return nil, err
		}
		ov.Replace[src] = dst
	}

	// 4b. the keymaster client as a linkable package (virtual package cmd/zz_vf_kmcli)
	if err := genClientPackage(repo, verif, scratch, &ov); err != nil {
		return nil, fmt.Errorf("client package: %w", err)
	}
	for _, dir := range []string{"vfflag"} {
		fl, _ := filepath.Glob(filepath.Join(verif, "harness", dir, "*.go"))
		for _, f := range fl {
			ov.Replace[filepath.Join(repo, "zz_vfhook", dir, filepath.Base(f))] = f
		}
	}

	// 5. routes from main()
	routes, n, err := genRoutes(filepath.Join(repo, "cmd", "keymasterd", "app.go"))
	if err != nil {
		return nil, fmt.Errorf("routes: %w", err)
	}
	out.Routes = n
	rdst := filepath.Join(scratch, "inst", "routes_test.go")
	if err := os.WriteFile(rdst, routes, 0o644); err != nil {
		return nil, err
	}
	ov.Replace[filepath.Join(repo, "cmd", "keymasterd", "zz_vf_routes_test.go")] = rdst

	// 6. go.mod / go.sum copies (never write /repo/go.mod)
	mod, err := os.ReadFile(filepath.Join(repo, "go.mod"))
	if err != nil {
		return nil, err
	}
	out.ModFile = filepath.Join(scratch, "go.mod")
	if err := os.WriteFile(out.ModFile, mod, 0o644); err != nil {
		return nil, err
	}
	sum, _ := os.ReadFile(filepath.Join(repo, "go.sum"))
	if err := os.WriteFile(filepath.Join(scratch, "go.sum"), sum, 0o644); err != nil {
		return nil, err
	}

	out.Overlay = filepath.Join(scratch, "overlay.json")
	b, _ := json.MarshalIndent(ov, "", " ")
	if err := os.WriteFile(out.Overlay, b, 0o644); err != nil {
		return nil, err
	}
	return out, nil
}

func exprString(fset *token.FileSet, e ast.Expr) string {
	var b bytes.Buffer
	printer.Fprint(&b, fset, e)
	return b.String()
}

func addImport(f *ast.File, path string) {
	for _, im := range f.Imports {
		if strings.Trim(im.Path.Value, `"`) == path {
			return
		}
	}
	spec := &ast.ImportSpec{Name: ast.NewIdent("vfhook"), Path: &ast.BasicLit{Kind: token.STRING, Value: `"` + path + `"`}}
	decl := &ast.GenDecl{Tok: token.IMPORT, Specs: []ast.Spec{spec}}
	// after the first import decl (must precede other decls)
	idx := 0
	for i, d := range f.Decls {
		if g, ok := d.(*ast.GenDecl); ok && g.Tok == token.IMPORT {
			idx = i + 1
		}
	}
	f.Decls = append(f.Decls[:idx], append([]ast.Decl{decl}, f.Decls[idx:]...)...)
}

func yieldStmt(label string) ast.Stmt {
	return &ast.ExprStmt{X: &ast.CallExpr{
		Fun:  &ast.SelectorExpr{X: ast.NewIdent("vfhook"), Sel: ast.NewIdent("Yield")},
		Args: []ast.Expr{&ast.BasicLit{Kind: token.STRING, Value: fmt.Sprintf("%q", label)}},
	}}
}

// isStateLock reports whether stmt is `<state-ish>.<Mutex>.Lock()` / RLock().
func isStateLock(fset *token.FileSet, s ast.Stmt) bool {
	es, ok := s.(*ast.ExprStmt)
	if !ok {
		return false
	}
	call, ok := es.X.(*ast.CallExpr)
	if !ok || len(call.Args) != 0 {
		return false
	}
	sel, ok := call.Fun.(*ast.SelectorExpr)
	if !ok || (sel.Sel.Name != "Lock" && sel.Sel.Name != "RLock") {
		return false
	}
	recv := exprString(fset, sel.X)
	if strings.Contains(recv, "metricsMutex") {
		return false
	}
	// the RuntimeState mutexes: state.Mutex, state.totpLocalTateLimitMutex, state.storageRWMutex ...
	return strings.HasPrefix(recv, "state.") || strings.HasPrefix(recv, "runtimeState.")
}

// sharedObjectCall reports whether stmt (not descending into nested blocks) calls a method of a shared,
// internally synchronised sub-object of the RuntimeState (rate limiter, caches): between two such calls other
// requests may run, so the scheduler gets a decision point in front of each.
var sharedFieldRE = regexp.MustCompile(`(?i)(limiter|cache)$`)

// package-level sync.Map variables of the daemon (set per generation)
var sharedGlobals = map[string]bool{}

func findSyncMapGlobals(srcs []string) ([]string, error) {
	var names []string
	for _, f := range srcs {
		if strings.HasSuffix(f, "_test.go") {
			continue
		}
		fset := token.NewFileSet()
		af, err := parser.ParseFile(fset, f, nil, 0)
		if err != nil {
			return nil, err
		}
		for _, d := range af.Decls {
			gd, ok := d.(*ast.GenDecl)
			if !ok || gd.Tok != token.VAR {
				continue
			}
			for _, sp := range gd.Specs {
				vs, ok := sp.(*ast.ValueSpec)
				if !ok || vs.Type == nil || len(vs.Values) != 0 {
					continue
				}
				if se, ok := vs.Type.(*ast.SelectorExpr); ok {
					if x, ok := se.X.(*ast.Ident); ok && x.Name == "sync" && se.Sel.Name == "Map" {
						for _, n := range vs.Names {
							names = append(names, n.Name)
						}
					}
				}
			}
		}
	}
	sort.Strings(names)
	return names, nil
}

func sharedObjectCall(s ast.Stmt) bool {
	found := false
	ast.Inspect(s, func(n ast.Node) bool {
		if found {
			return false
		}
		switch v := n.(type) {
		case *ast.BlockStmt:
			return false
		case *ast.FuncLit:
			return false
		case *ast.CallExpr:
			if sel, ok := v.Fun.(*ast.SelectorExpr); ok {
				if id, ok := sel.X.(*ast.Ident); ok && sharedGlobals[id.Name] {
					found = true
					return false
				}
				if inner, ok := sel.X.(*ast.SelectorExpr); ok {
					if id, ok := inner.X.(*ast.Ident); ok && (id.Name == "state" || id.Name == "runtimeState") && sharedFieldRE.MatchString(inner.Sel.Name) {
						found = true
						return false
					}
				}
			}
		}
		return true
	})
	return found
}

func instrumentYields(path string) (int, []byte, error) {
	fset := token.NewFileSet()
	f, err := parser.ParseFile(fset, path, nil, parser.ParseComments)
	if err != nil {
		return 0, nil, err
	}
	base := filepath.Base(path)
	count := 0
	var fix func(list []ast.Stmt) []ast.Stmt
	fix = func(list []ast.Stmt) []ast.Stmt {
		var outl []ast.Stmt
		for _, s := range list {
			if isStateLock(fset, s) {
				line := fset.Position(s.Pos()).Line
				outl = append(outl, yieldStmt(fmt.Sprintf("lock:%s:%d", base, line)))
				count++
			} else if sharedObjectCall(s) {
				line := fset.Position(s.Pos()).Line
				outl = append(outl, yieldStmt(fmt.Sprintf("shared:%s:%d", base, line)))
				count++
			}
			outl = append(outl, s)
		}
		return outl
	}
	ast.Inspect(f, func(n ast.Node) bool {
		switch v := n.(type) {
		case *ast.BlockStmt:
			v.List = fix(v.List)
		case *ast.CaseClause:
			v.Body = fix(v.Body)
		case *ast.CommClause:
			v.Body = fix(v.Body)
		case *ast.ForStmt:
			if v.Cond == nil && v.Init == nil && v.Post == nil && v.Body != nil {
				line := fset.Position(v.Pos()).Line
				v.Body.List = append([]ast.Stmt{yieldStmt(fmt.Sprintf("loop:%s:%d", base, line))}, v.Body.List...)
				count++
			}
		}
		return true
	})
	if count == 0 {
		return 0, nil, nil
	}
	addImport(f, hookImportPath)
	var b bytes.Buffer
	// drop comment positions trouble: print without comments map adjustments
	cfg := printer.Config{Mode: printer.UseSpaces | printer.TabIndent, Tabwidth: 8}
	f.Comments = nil // directives such as go:embed live in other files only when untouched; see below
	if err := cfg.Fprint(&b, fset, f); err != nil {
		return 0, nil, err
	}
	src := b.Bytes()
	// //go:embed directives are comments: re-attach any that the original had.
	orig, _ := os.ReadFile(path)
	if bytes.Contains(orig, []byte("//go:embed")) {
		src = reattachEmbeds(orig, src)
	}
	fm, err := format.Source(src)
	if err != nil {
		return 0, nil, fmt.Errorf("formatting instrumented %s: %w", base, err)
	}
	return count, fm, nil
}

// rewriteDials turns every net.Dial(...) call of the file into vfhook.ClientDial(...).
func rewriteDials(path string) (int, []byte, error) {
	fset := token.NewFileSet()
	f, err := parser.ParseFile(fset, path, nil, parser.ParseComments)
	if err != nil {
		return 0, nil, err
	}
	count := 0
	ast.Inspect(f, func(x ast.Node) bool {
		call, ok := x.(*ast.CallExpr)
		if !ok {
			return true
		}
		se, ok := call.Fun.(*ast.SelectorExpr)
		if !ok {
			return true
		}
		if id, ok := se.X.(*ast.Ident); ok && id.Name == "net" && (se.Sel.Name == "Dial" || se.Sel.Name == "DialTimeout") {
			name := "ClientDial"
			if se.Sel.Name == "DialTimeout" {
				name = "ClientDialTimeout"
			}
			call.Fun = &ast.SelectorExpr{X: ast.NewIdent("vfhook"), Sel: ast.NewIdent(name)}
			count++
		}
		return true
	})
	if count == 0 {
		return 0, nil, nil
	}
	addImport(f, hookImportPath)
	var b bytes.Buffer
	cfg := printer.Config{Mode: printer.UseSpaces | printer.TabIndent, Tabwidth: 8}
	f.Comments = nil
	if err := cfg.Fprint(&b, fset, f); err != nil {
		return 0, nil, err
	}
	fm, err := format.Source(b.Bytes())
	if err != nil {
		return 0, nil, err
	}
	return count, fm, nil
}

// libYieldPackages are the library packages with locks of their own that requests share.
var libYieldPackages = []string{"keymasterd/eventnotifier", "keymasterd/admincache", "lib/authenticators/okta"}

func isUnlockStmt(s ast.Stmt) bool {
	es, ok := s.(*ast.ExprStmt)
	if !ok {
		return false
	}
	call, ok := es.X.(*ast.CallExpr)
	if !ok || len(call.Args) != 0 {
		return false
	}
	sel, ok := call.Fun.(*ast.SelectorExpr)
	return ok && (sel.Sel.Name == "Unlock" || sel.Sel.Name == "RUnlock")
}

// instrumentUnlockYields inserts a yield after every explicit (not deferred) Unlock / RUnlock statement.
func instrumentUnlockYields(path, pkg string) (int, []byte, error) {
	fset := token.NewFileSet()
	f, err := parser.ParseFile(fset, path, nil, parser.ParseComments)
	if err != nil {
		return 0, nil, err
	}
	orig, _ := os.ReadFile(path)
	if bytes.Contains(orig, []byte("//go:embed")) || bytes.Contains(orig, []byte("import \"C\"")) || bytes.Contains(orig, []byte("//go:build")) {
		return 0, nil, nil
	}
	base := filepath.Base(filepath.Dir(path)) + "/" + filepath.Base(path)
	count := 0
	fix := func(list []ast.Stmt) []ast.Stmt {
		var outl []ast.Stmt
		for _, s := range list {
			outl = append(outl, s)
			if isUnlockStmt(s) {
				line := fset.Position(s.Pos()).Line
				outl = append(outl, yieldStmt(fmt.Sprintf("unlock:%s:%d", base, line)))
				count++
			}
		}
		return outl
	}
	ast.Inspect(f, func(n ast.Node) bool {
		switch v := n.(type) {
		case *ast.BlockStmt:
			v.List = fix(v.List)
		case *ast.CaseClause:
			v.Body = fix(v.Body)
		case *ast.CommClause:
			v.Body = fix(v.Body)
		}
		return true
	})
	if count == 0 {
		return 0, nil, nil
	}
	addImport(f, hookImportPath)
	var b bytes.Buffer
	cfg := printer.Config{Mode: printer.UseSpaces | printer.TabIndent, Tabwidth: 8}
	f.Comments = nil
	if err := cfg.Fprint(&b, fset, f); err != nil {
		return 0, nil, err
	}
	fm, err := format.Source(b.Bytes())
	if err != nil {
		return 0, nil, fmt.Errorf("formatting instrumented %s: %w", base, err)
	}
	return count, fm, nil
}

// reattachEmbeds copies "//go:embed X" lines in front of the var they preceded.
func reattachEmbeds(orig, src []byte) []byte {
	lines := strings.Split(string(orig), "\n")
	for i, l := range lines {
		if strings.HasPrefix(l, "//go:embed") && i+1 < len(lines) {
			next := strings.TrimSpace(lines[i+1])
			if next == "" {
				continue
			}
			src = bytes.Replace(src, []byte("\n"+next), []byte("\n"+l+"\n"+next), 1)
		}
	}
	return src
}

func instrumentEntryHooks(path string, hooks []entryHook) ([]byte, int, error) {
	fset := token.NewFileSet()
	f, err := parser.ParseFile(fset, path, nil, 0)
	if err != nil {
		return nil, 0, err
	}
	done := 0
	for _, h := range hooks {
		found := false
		if h.Call != "" {
			pkg, fn, _ := strings.Cut(h.Call, ".")
			ast.Inspect(f, func(x ast.Node) bool {
				call, ok := x.(*ast.CallExpr)
				if !ok {
					return true
				}
				if se, ok := call.Fun.(*ast.SelectorExpr); ok {
					if id, ok := se.X.(*ast.Ident); ok && id.Name == pkg && se.Sel.Name == fn {
						call.Fun = &ast.SelectorExpr{X: ast.NewIdent("vfhook"), Sel: ast.NewIdent(h.Var)}
						found = true
						done++
					}
				}
				return true
			})
			if !found {
				return nil, 0, fmt.Errorf("no call of %s found in %s", h.Call, path)
			}
			continue
		}
		for _, d := range f.Decls {
			fd, ok := d.(*ast.FuncDecl)
			if !ok || fd.Name.Name != h.Func || fd.Body == nil {
				continue
			}
			recv := ""
			if fd.Recv != nil && len(fd.Recv.List) == 1 {
				t := fd.Recv.List[0].Type
				if st, ok := t.(*ast.StarExpr); ok {
					t = st.X
				}
				if id, ok := t.(*ast.Ident); ok {
					recv = id.Name
				}
			}
			if recv != h.Recv {
				continue
			}
			// argument names
			var args []ast.Expr
			for _, p := range fd.Type.Params.List {
				if len(p.Names) == 0 {
					return nil, 0, fmt.Errorf("%s: unnamed parameter", h.Func)
				}
				for _, nm := range p.Names {
					args = append(args, ast.NewIdent(nm.Name))
				}
			}
			hv := &ast.SelectorExpr{X: ast.NewIdent("vfhook"), Sel: ast.NewIdent(h.Var)}
			var ret ast.Stmt
			call := &ast.CallExpr{Fun: hv, Args: args}
			if h.Observe {
				ret = &ast.BlockStmt{List: []ast.Stmt{&ast.ExprStmt{X: call}}}
			} else if fd.Type.Results == nil || len(fd.Type.Results.List) == 0 {
				ret = &ast.BlockStmt{List: []ast.Stmt{&ast.ExprStmt{X: call}, &ast.ReturnStmt{}}}
			} else {
				ret = &ast.BlockStmt{List: []ast.Stmt{&ast.ReturnStmt{Results: []ast.Expr{call}}}}
			}
			ifs := &ast.IfStmt{
				Cond: &ast.BinaryExpr{X: hv, Op: token.NEQ, Y: ast.NewIdent("nil")},
				Body: ret.(*ast.BlockStmt),
			}
			fd.Body.List = append([]ast.Stmt{ifs}, fd.Body.List...)
			found = true
			done++
		}
		if !found {
			return nil, 0, fmt.Errorf("hook target %s.%s not found in %s", h.Recv, h.Func, path)
		}
	}
	addImport(f, hookImportPath)
	var b bytes.Buffer
	if err := format.Node(&b, fset, f); err != nil {
		return nil, 0, err
	}
	return b.Bytes(), done, nil
}

// ---- route table extraction -------------------------------------------------

func isHandleCall(s ast.Stmt) (recv string, ok bool) {
	es, isE := s.(*ast.ExprStmt)
	if !isE {
		return "", false
	}
	call, isC := es.X.(*ast.CallExpr)
	if !isC {
		return "", false
	}
	sel, isS := call.Fun.(*ast.SelectorExpr)
	if !isS || (sel.Sel.Name != "Handle" && sel.Sel.Name != "HandleFunc") {
		return "", false
	}
	id, isI := sel.X.(*ast.Ident)
	if !isI || (id.Name != "serviceMux" && id.Name != "http") {
		return "", false
	}
	return id.Name, true
}

func containsHandle(n ast.Node) bool {
	found := false
	ast.Inspect(n, func(x ast.Node) bool {
		if s, ok := x.(ast.Stmt); ok {
			if _, ok2 := isHandleCall(s); ok2 {
				found = true
			}
		}
		return !found
	})
	return found
}

func genRoutes(appgo string) ([]byte, int, error) {
	fset := token.NewFileSet()
	f, err := parser.ParseFile(fset, appgo, nil, 0)
	if err != nil {
		return nil, 0, err
	}
	var mainFn *ast.FuncDecl
	for _, d := range f.Decls {
		if fd, ok := d.(*ast.FuncDecl); ok && fd.Name.Name == "main" && fd.Recv == nil {
			mainFn = fd
		}
	}
	if mainFn == nil {
		return nil, 0, fmt.Errorf("func main not found in app.go")
	}
	var kept []ast.Stmt
	keptSet := map[ast.Stmt]bool{}
	nreg := 0
	for _, s := range mainFn.Body.List {
		if _, ok := isHandleCall(s); ok {
			kept = append(kept, s)
			keptSet[s] = true
			continue
		}
		if ifs, ok := s.(*ast.IfStmt); ok && containsHandle(ifs) {
			kept = append(kept, s)
			keptSet[s] = true
		}
	}
	ast.Inspect(&ast.BlockStmt{List: kept}, func(x ast.Node) bool {
		if s, ok := x.(ast.Stmt); ok {
			if _, ok2 := isHandleCall(s); ok2 {
				nreg++
			}
		}
		return true
	})
	if nreg < 10 {
		return nil, 0, fmt.Errorf("only %d route registrations found in main()", nreg)
	}
	// names provided by the generated function itself
	provided := map[string]bool{"runtimeState": true, "serviceMux": true, "http": true, "err": true,
		"adminDashboard": true, "eventNotifier": true, "true": true, "false": true, "nil": true}
	// dependency closure over top-level := in main()
	defs := map[string]ast.Stmt{}
	for _, s := range mainFn.Body.List {
		if as, ok := s.(*ast.AssignStmt); ok && as.Tok == token.DEFINE {
			for _, l := range as.Lhs {
				if id, ok := l.(*ast.Ident); ok && id.Name != "_" {
					defs[id.Name] = s
				}
			}
		}
	}
	changed := true
	for changed {
		changed = false
		used := map[string]bool{}
		for s := range keptSet {
			ast.Inspect(s, func(x ast.Node) bool {
				if se, ok := x.(*ast.SelectorExpr); ok {
					// only the root identifier matters
					ast.Inspect(se.X, func(y ast.Node) bool {
						if id, ok := y.(*ast.Ident); ok {
							used[id.Name] = true
						}
						return true
					})
					return false
				}
				if id, ok := x.(*ast.Ident); ok {
					used[id.Name] = true
				}
				return true
			})
		}
		for name := range used {
			if provided[name] {
				continue
			}
			if d, ok := defs[name]; ok && !keptSet[d] {
				keptSet[d] = true
				changed = true
			}
		}
	}
	// final ordered list = original order
	var body []ast.Stmt
	for _, s := range mainFn.Body.List {
		if keptSet[s] {
			body = append(body, s)
		}
	}
	// rewrite http.Handle -> adminMux.Handle inside kept statements
	for _, s := range body {
		ast.Inspect(s, func(x ast.Node) bool {
			if call, ok := x.(*ast.CallExpr); ok {
				if sel, ok := call.Fun.(*ast.SelectorExpr); ok && (sel.Sel.Name == "Handle" || sel.Sel.Name == "HandleFunc") {
					if id, ok := sel.X.(*ast.Ident); ok && id.Name == "http" {
						sel.X = ast.NewIdent("adminMux")
					}
				}
			}
			return true
		})
	}
	var bodySrc bytes.Buffer
	for _, s := range body {
		printer.Fprint(&bodySrc, fset, s)
		bodySrc.WriteString("\n")
	}
	// pattern list: same statements with Handle(P,H) -> list = append(list, P)
	var listSrc bytes.Buffer
	for _, s := range body {
		ast.Inspect(s, func(x ast.Node) bool {
			es, ok := x.(*ast.ExprStmt)
			if !ok {
				return true
			}
			call, ok := es.X.(*ast.CallExpr)
			if !ok {
				return true
			}
			sel, ok := call.Fun.(*ast.SelectorExpr)
			if !ok || (sel.Sel.Name != "Handle" && sel.Sel.Name != "HandleFunc") || len(call.Args) != 2 {
				return true
			}
			id, ok := sel.X.(*ast.Ident)
			if !ok {
				return true
			}
			target := "svc"
			if id.Name == "adminMux" {
				target = "adm"
			}
			es.X = &ast.CallExpr{Fun: ast.NewIdent("vfAddPattern"), Args: []ast.Expr{
				ast.NewIdent("&" + target), call.Args[0]}}
			return false
		})
	}
	for _, s := range body {
		printer.Fprint(&listSrc, fset, s)
		listSrc.WriteString("\n")
		if as, ok := s.(*ast.AssignStmt); ok && as.Tok == token.DEFINE {
			for _, l := range as.Lhs {
				if id, ok := l.(*ast.Ident); ok && id.Name != "_" {
					listSrc.WriteString("_ = " + id.Name + "\n")
				}
			}
		}
	}
	// imports actually used
	importByName := map[string]string{}
	for _, im := range f.Imports {
		p := strings.Trim(im.Path.Value, `"`)
		name := filepath.Base(p)
		if im.Name != nil {
			name = im.Name.Name
		}
		importByName[name] = im.Path.Value
		if im.Name != nil {
			importByName[name] = im.Name.Name + " " + im.Path.Value
		}
	}
	usedPk := map[string]bool{"http": true}
	scan := bodySrc.String() + listSrc.String()
	for name := range importByName {
		if strings.Contains(scan, name+".") {
			usedPk[name] = true
		}
	}
	var outb bytes.Buffer
	outb.WriteString("// Code generated by vfgen from main() of cmd/keymasterd/app.go. DO NOT EDIT.\npackage main\n\nimport (\n")
	var names []string
	for n := range usedPk {
		names = append(names, n)
	}
	sort.Strings(names)
	for _, n := range names {
		if spec, ok := importByName[n]; ok {
			outb.WriteString("\t" + spec + "\n")
		}
	}
	outb.WriteString(")\n\n")
	outb.WriteString("func vfBuildMuxes(runtimeState *RuntimeState, adminDashboard http.Handler) (serviceMux *http.ServeMux, adminMux *http.ServeMux) {\n")
	outb.WriteString("\tvar err error\n\t_ = err\n\tserviceMux = http.NewServeMux()\n\tadminMux = http.NewServeMux()\n")
	outb.WriteString(bodySrc.String())
	outb.WriteString("\treturn serviceMux, adminMux\n}\n\n")
	outb.WriteString("func vfAddPattern(l *[]string, p string) { *l = append(*l, p) }\n\n")
	outb.WriteString("func vfRoutePatterns(runtimeState *RuntimeState) (svc []string, adm []string) {\n\tvar err error\n\t_ = err\n")
	outb.WriteString(listSrc.String())
	outb.WriteString("\treturn svc, adm\n}\n")
	src, err := format.Source(outb.Bytes())
	if err != nil {
		return outb.Bytes(), nreg, fmt.Errorf("generated routes do not format: %w", err)
	}
	return src, nreg, nil
}

// genClientPackage: cmd/keymaster/{main.go,signers.go} of the current tree as
// package kmcli: the package clause changed, `func main` dropped, package flag
// redirected to a private FlagSet, imports that only main() used removed.
// Everything else in those files is the tree's code.
func genClientPackage(repo, verif, scratch string, ov *overlayJSON) error {
	srcs, _ := filepath.Glob(filepath.Join(repo, "cmd", "keymaster", "*.go"))
	sort.Strings(srcs)
	n := 0
	for _, src := range srcs {
		if strings.HasSuffix(src, "_test.go") {
			continue
		}
		fset := token.NewFileSet()
		f, err := parser.ParseFile(fset, src, nil, 0)
		if err != nil {
			return err
		}
		f.Name = ast.NewIdent("kmcli")
		var decls []ast.Decl
		for _, d := range f.Decls {
			if fd, ok := d.(*ast.FuncDecl); ok && fd.Recv == nil && fd.Name.Name == "main" {
				continue
			}
			decls = append(decls, d)
		}
		f.Decls = decls
		// the client's file writes go through the simulator's disk seam (vfhook.ClientWriteFile / ClientCreate /
		// ClientChmod: the real os functions unless the harness installs a disk with faults)
		diskCalls := 0
		ast.Inspect(f, func(x ast.Node) bool {
			call, ok := x.(*ast.CallExpr)
			if !ok {
				return true
			}
			se, ok := call.Fun.(*ast.SelectorExpr)
			if !ok {
				return true
			}
			id, ok := se.X.(*ast.Ident)
			if !ok {
				return true
			}
			repl := ""
			switch {
			case (id.Name == "ioutil" || id.Name == "os") && se.Sel.Name == "WriteFile":
				repl = "ClientWriteFile"
			case id.Name == "os" && se.Sel.Name == "Create":
				repl = "ClientCreate"
			case id.Name == "os" && se.Sel.Name == "Chmod":
				repl = "ClientChmod"
			}
			if repl != "" {
				call.Fun = &ast.SelectorExpr{X: ast.NewIdent("vfhook"), Sel: ast.NewIdent(repl)}
				diskCalls++
			}
			return true
		})
		if diskCalls > 0 {
			addImport(f, hookImportPath)
		}
		// which package names are still referenced?
		used := map[string]bool{}
		ast.Inspect(f, func(x ast.Node) bool {
			if se, ok := x.(*ast.SelectorExpr); ok {
				if id, ok := se.X.(*ast.Ident); ok {
					used[id.Name] = true
				}
			}
			return true
		})
		for _, d := range f.Decls {
			gd, ok := d.(*ast.GenDecl)
			if !ok || gd.Tok != token.IMPORT {
				continue
			}
			var specs []ast.Spec
			for _, sp := range gd.Specs {
				is := sp.(*ast.ImportSpec)
				path := strings.Trim(is.Path.Value, `"`)
				name := filepath.Base(path)
				if is.Name != nil {
					name = is.Name.Name
				}
				if path == "flag" {
					is.Name = ast.NewIdent("flag")
					is.Path.Value = `"` + hookImportPath + `/vfflag"`
				}
				if name == "_" || used[name] {
					specs = append(specs, sp)
				}
			}
			gd.Specs = specs
		}
		// drop empty import decls
		var decls2 []ast.Decl
		for _, d := range f.Decls {
			if gd, ok := d.(*ast.GenDecl); ok && gd.Tok == token.IMPORT && len(gd.Specs) == 0 {
				continue
			}
			decls2 = append(decls2, d)
		}
		f.Decls = decls2
		f.Imports = nil
		var b bytes.Buffer
		if err := format.Node(&b, fset, f); err != nil {
			return err
		}
		dst := filepath.Join(scratch, "inst", "kmcli_"+filepath.Base(src))
		if err := os.WriteFile(dst, b.Bytes(), 0o644); err != nil {
			return err
		}
		ov.Replace[filepath.Join(repo, "cmd", "zz_vf_kmcli", filepath.Base(src))] = dst
		n++
	}
	if n == 0 {
		return fmt.Errorf("no client sources under cmd/keymaster")
	}
	ex, _ := filepath.Glob(filepath.Join(verif, "harness", "kmcli", "*.go"))
	for _, f := range ex {
		ov.Replace[filepath.Join(repo, "cmd", "zz_vf_kmcli", "zz_"+filepath.Base(f))] = f
	}
	return nil
}
