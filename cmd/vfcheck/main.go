package main

// vfcheck: driver of the deterministic-simulation checks for keymaster.
//
//   vfcheck <ID> --tier quick|thorough      run the check of one property
//   vfcheck <ID> --replay <file>            re-execute a replay file
//   vfcheck selftest                        determinism self-test
//   vfcheck warm                            build once (fills the Go build cache)
//
// Exit codes: 0 held on everything explored; 1 VIOLATION (replay verified);
// 2 infrastructure trouble (never reported as a violation).

import (
	"bufio"
	"bytes"
	"crypto/sha256"
	"encoding/json"
	"flag"
	"fmt"
	"os"
	"os/exec"
	"path/filepath"
	"runtime"
	"sort"
	"strconv"
	"strings"
	"sync"
	"time"
)

var verifDir = "/verif"

var repoDir = "/repo"

type violation struct {
	Prop   string `json:"prop"`
	Class  string `json:"class"`
	Key    string `json:"key"`
	Detail string `json:"detail"`
	Step   int    `json:"step"`
}

type result struct {
	Seed       int64           `json:"seed"`
	Prop       string          `json:"prop"`
	Steps      int             `json:"steps"`
	Requests   int             `json:"requests"`
	SimSeconds float64         `json:"sim_seconds"`
	Faults     map[string]int  `json:"faults"`
	Probes     map[string]int  `json:"probes"`
	Cells      []string        `json:"cells"`
	HistHash   string          `json:"hist_hash"`
	SchedHash  string          `json:"sched_hash"`
	Multi      int             `json:"multi_decisions"`
	Nontrivial bool            `json:"nontrivial"`
	Violations []violation     `json:"violations"`
	Log        []string        `json:"log"`
	Plan       json.RawMessage `json:"plan"`
	Plans      map[string]json.RawMessage `json:"plans"`
	Infra      string          `json:"infra"`
	ShrunkFrom int             `json:"shrunk_from"`
	ShrunkRuns int             `json:"shrunk_runs"`
	Panics     int             `json:"panics"`
	Variant    string          `json:"variant"`
	Rule       string          `json:"rule"`
}

type job struct {
	Prop     string          `json:"prop"`
	Tier     string          `json:"tier"`
	Mode     string          `json:"mode"`
	Seeds    []int64         `json:"seeds"`
	Replay   json.RawMessage `json:"replay,omitempty"`
	Out      string          `json:"out"`
	Shrink   int             `json:"shrink"`
	Samples  int             `json:"samples"`
	Known    []string        `json:"known,omitempty"`
	Deadline int64           `json:"deadline_unix,omitempty"`
}

type knownFinding struct {
	Status   string `json:"status"` // known | fixed
	Property string `json:"property"`
	Class    string `json:"class"`
	Key      string `json:"key"` // exact violation key (class + discriminating parameters)
	What     string `json:"what"`
	Commit   string `json:"commit,omitempty"`
	Replay   string `json:"replay,omitempty"`
}

type propSpec struct {
	ID        string
	Level     string
	Race      bool
	QuickRuns int
	ThorRuns  int
	QuickSecs int // wall budget for the run phase
	ThorSecs  int
	Real      []string
	Stub      []string
	Assume    []string
}

var commonReal = []string{
	"cmd/keymasterd RuntimeState built by the real loadVerifyConfigFile from a generated config.yml",
	"real handlers behind the route table generated from main() of the current tree, wrapped in the real instrumentedwriter.LoggingHandler",
	"real storage.go over real SQLite files (WAL) through the vfsql wrapping driver; real BackgroundDBCopy, performStateCleanup (fake-time driven)",
	"real JWT/cookie code, real certgen library, real tstranex/u2f verification, real pquerna TOTP, real rate limiter",
}
var commonStub = []string{
	"wall clock/timers: testing/synctest fake clock",
	"crypto/rand: seeded stream (cryptotest.SetGlobalRandom) in non-race builds",
	"Symantec VIP user services: simulated at the wire (the real lib/vip builds the SOAP requests and evaluates the answers; its HTTPS POST is the seam), with approve / deny / in-progress / expired / unknown transaction states; LDAP password checks: simulated at the wire (the TLS dial of lib/authutil is the seam; the real gopkg.in/ldap.v2 client speaks BER-encoded LDAP with a simulated server over an in-bubble pipe: bind accepted / invalid credentials / busy, unavailable, other; dial time-outs and refusals); LDAP group and attribute searches, SMTP: simulated backends behind entry hooks; Okta authentication API: simulated service behind http.DefaultClient's transport (the real lib/authenticators/okta and /api/v0/okta* handlers run against it); OAuth2 identity provider for federated login: simulated token and userinfo endpoints behind the same transport (real golang.org/x/oauth2 exchange and the real login/callback handlers); AWS STS for cloud-role certificates: simulated GetCallerIdentity validation of presigned URLs behind the same transport (real aws_identity_cert issuer and presign caller)",
	"TCP/TLS transport: requests built in-process; VerifiedChains produced by x509.Verify against the server's ClientCAPool as crypto/tls would",
	"external password helper (external_auth_command): a real child process (fixtures/authhelper.sh) whose fate the plan decides (exit 0/1, dies from a signal, other exit status)",
	"post-unseal steps inlined in main() (CA pool completion, password-cache storage hookup) are re-implemented in the harness",
	"U2F hardware token: software token; WebAuthn/FIDO2 attestation, gitDB, ACME, PostgreSQL dialect: not exercised",
}

var specs = map[string]*propSpec{}

func addSpec(s *propSpec) { specs[s.ID] = s }

func init() {
	for _, id := range []string{"C01", "C02", "C03", "C05"} {
		addSpec(&propSpec{ID: id, Level: "exploration", QuickRuns: 1600, ThorRuns: 40000, QuickSecs: 75, ThorSecs: 900})
	}
	addSpec(&propSpec{ID: "C04", Level: "exploration", QuickRuns: 1600, ThorRuns: 40000, QuickSecs: 75, ThorSecs: 900})
	addSpec(&propSpec{ID: "C06", Level: "exploration", QuickRuns: 1200, ThorRuns: 30000, QuickSecs: 75, ThorSecs: 900})
	addSpec(&propSpec{ID: "C08", Level: "exploration", QuickRuns: 1600, ThorRuns: 40000, QuickSecs: 75, ThorSecs: 900})
	addSpec(&propSpec{ID: "C11", Level: "exploration", QuickRuns: 800, ThorRuns: 40000, QuickSecs: 75, ThorSecs: 900})
	addSpec(&propSpec{ID: "C12", Level: "exploration", QuickRuns: 1600, ThorRuns: 40000, QuickSecs: 75, ThorSecs: 900})
	addSpec(&propSpec{ID: "C07", Level: "exploration", QuickRuns: 1200, ThorRuns: 30000, QuickSecs: 75, ThorSecs: 900})
	addSpec(&propSpec{ID: "C09", Level: "exploration", Race: true, QuickRuns: 640, ThorRuns: 16000, QuickSecs: 90, ThorSecs: 1200})
	addSpec(&propSpec{ID: "C14", Level: "exploration", QuickRuns: 1200, ThorRuns: 30000, QuickSecs: 75, ThorSecs: 900})
	addSpec(&propSpec{ID: "C19", Level: "exploration", QuickRuns: 480, ThorRuns: 12000, QuickSecs: 75, ThorSecs: 900,
		Real: []string{"the client: cmd/keymaster setupCerts / insertSSHCertIntoAgentORWriteToFilesystem / signers.go (linked as a virtual package generated from the current tree, main() and flag registration dropped), lib/client/twofa, lib/client/sshagent, lib/client/util, net/http client with cookie jar; real x/crypto/ssh/agent protocol over an in-bubble pipe; real files in a per-run home directory"},
		Stub: []string{"client side: the HTTP transport (recording RoundTripper that serialises each request, keeps the bytes and hands them to the server's real mux), the terminal (a regular file rewritten before each prompt), the SSH agent (x/crypto keyring behind the real agent protocol, with refusal modes and a foreign identity; reached through net.Dial of lib/client/sshagent, which is routed to the simulated transport: the designated socket named by SSH_AUTH_SOCK, optionally a stray agent socket of another process in the temporary directory), the client's disk (cmd/keymaster's file writes pass through a seam to the real file system; fault: the k-th write finds the disk full and leaves half of the data), U2F/HID devices (none)"},
		Assume: []string{"the client's main() (flag parsing, config-file bootstrap, user lookup) is not run: the run starts at setupCerts with a constructed configuration; the terminal is a regular file the harness rewrites before each prompt; U2F-over-USB second factors are not exercised (no HID device in the bubble)"}})
	addSpec(&propSpec{ID: "C20", Level: "fault_enumeration", QuickRuns: 480, ThorRuns: 12000, QuickSecs: 75, ThorSecs: 900,
		Assume: []string{"the subscriber side decodes the notifier's stream with encoding/json exactly as eventmon/monitord.receiveV0 does; the 40-line glue of cmd/keymaster-eventmond (monitor channels -> recorder channels) is not exercised: events are fed to the recorder's public channels directly",
			"the AWS Organisations account listing (list_accounts_role) is not exercised: allowed accounts are configured statically"}})
	addSpec(&propSpec{ID: "C16", Level: "exploration", Race: true, QuickRuns: 800, ThorRuns: 16000, QuickSecs: 120, ThorSecs: 1200})
	addSpec(&propSpec{ID: "C15", Level: "fault_enumeration", QuickRuns: 96, ThorRuns: 4000, QuickSecs: 75, ThorSecs: 900,
		Assume: []string{"SQLite's own atomic commit is trusted: torn or lost page writes below SQLite are not simulated (the files live on the real file system / tmpfs)",
			"a crash is modelled as: no driver call after the crash point reaches the database, open connections are closed without commit or rollback, both files are reopened"}})
}

func main() {
	if len(os.Args) < 2 {
		fmt.Fprintln(os.Stderr, "usage: vfcheck <ID>|selftest|warm [--tier quick|thorough] [--replay file] [--seed n]")
		os.Exit(2)
	}
	if r := os.Getenv("VF_REPO"); r != "" {
		repoDir = r
	}
	// the framework directory is the parent of the directory holding this binary
	// (so that a snapshot of /verif uses its own harness, fixtures and findings)
	if exe, err := os.Executable(); err == nil {
		if d := filepath.Dir(filepath.Dir(exe)); fileExists(filepath.Join(d, "harness", "keymasterd")) {
			verifDir = d
		}
	}
	cmd := os.Args[1]
	fs := flag.NewFlagSet("vfcheck", flag.ExitOnError)
	tier := fs.String("tier", envOr("VERIF_TIER", "quick"), "quick|thorough")
	replay := fs.String("replay", "", "replay file")
	seedF := fs.Int64("seed", -1, "base seed (default: VERIF_SEED or 1)")
	runs := fs.Int("runs", 0, "override number of runs")
	procs := fs.Int("procs", 0, "override number of processes")
	keep := fs.Bool("keep", false, "keep scratch directory")
	noEvidence := fs.Bool("no-evidence", false, "do not write evidence (development)")
	noReplayFiles := fs.Bool("no-replay-files", false, "write replay files under the scratch area instead of /verif/replays (development)")
	fs.Parse(os.Args[2:])
	seed := *seedF
	if seed < 0 {
		seed = 1
		if s := os.Getenv("VERIF_SEED"); s != "" {
			if v, err := strconv.ParseInt(s, 10, 64); err == nil {
				seed = v
			}
		}
	}
	d := &driver{tier: *tier, seed: seed, runs: *runs, procs: *procs, keep: *keep, noEvidence: *noEvidence}
	if *noReplayFiles {
		d.replayDir = "/var/tmp/vf-dev-replays"
	}
	os.Exit(d.run(cmd, *replay))
}

func fileExists(p string) bool {
	_, err := os.Stat(p)
	return err == nil
}

func envOr(k, d string) string {
	if v := os.Getenv(k); v != "" {
		return v
	}
	return d
}

type driver struct {
	tier       string
	seed       int64
	runs       int
	procs      int
	keep       bool
	noEvidence bool
	replayDir  string
	lastOutput string
	scratch    string
	gen        *genOut
	start      time.Time
}

func (d *driver) cleanup() {
	if d.scratch != "" {
		os.RemoveAll(filepath.Join("/dev/shm", filepath.Base(d.scratch)))
	}
	if d.scratch != "" && !d.keep {
		os.RemoveAll(d.scratch)
	}
}

func (d *driver) infra(format string, a ...any) int {
	fmt.Printf("INFRA-ERROR: "+format+"\n", a...)
	d.cleanup()
	return 2
}

func goEnv() []string {
	env := os.Environ()
	env = append(env, "GOFLAGS=-mod=mod", "GOPROXY=off", "GOSUMDB=off", "GOTOOLCHAIN=local", "GONOSUMDB=*", "CGO_ENABLED=1",
		// the client packages need libudev.h, which this sandbox lacks: declarations-only stub + .pc file
		"PKG_CONFIG_PATH="+filepath.Join(verifDir, "third_party", "udevstub"),
		// pkg-config output is not part of go's cache key; CGO_LDFLAGS is: keeps a cached cgo package built under another path from being reused
		"CGO_LDFLAGS=-g -O2 -L"+filepath.Join(verifDir, "third_party", "udevstub"))
	return env
}

func (d *driver) build(race bool) (string, error) {
	bin := filepath.Join(d.scratch, "km.test")
	args := []string{"test", "-c", "-vet=off", "-overlay", d.gen.Overlay, "-modfile", d.gen.ModFile, "-o", bin}
	if race {
		bin = filepath.Join(d.scratch, "km.race.test")
		args = []string{"test", "-c", "-race", "-vet=off", "-overlay", d.gen.Overlay, "-modfile", d.gen.ModFile, "-o", bin}
	}
	args = append(args, "./cmd/keymasterd")
	cmd := exec.Command(envOr("VF_GO", "go1.26.8"), args...)
	cmd.Dir = repoDir
	cmd.Env = goEnv()
	var out bytes.Buffer
	cmd.Stdout, cmd.Stderr = &out, &out
	if err := cmd.Run(); err != nil {
		return "", fmt.Errorf("build failed: %v\n%s", err, tail(out.String(), 60))
	}
	return bin, nil
}

func firstLine(s string) string {
	for _, l := range strings.Split(s, "\n") {
		if strings.HasPrefix(l, "panic:") || strings.HasPrefix(l, "fatal error:") {
			return l
		}
	}
	return ""
}

func tail(s string, n int) string {
	l := strings.Split(s, "\n")
	if len(l) > n {
		l = l[len(l)-n:]
	}
	return strings.Join(l, "\n")
}

func (d *driver) prepare(race bool) (string, int) {
	d.start = time.Now()
	base := envOr("VERIF_SCRATCH", "/var/tmp")
	d.scratch = filepath.Join(base, fmt.Sprintf("vf-%d", os.Getpid()))
	os.RemoveAll(d.scratch)
	if err := os.MkdirAll(filepath.Join(d.scratch, "run"), 0o755); err != nil {
		return "", d.infra("scratch: %v", err)
	}
	g, err := generate(repoDir, verifDir, d.scratch)
	if err != nil {
		return "", d.infra("generate: %v", err)
	}
	d.gen = g
	bin, err := d.build(race)
	if err != nil {
		return "", d.infra("%v", err)
	}
	return bin, 0
}

func loadKnown() []knownFinding {
	var k []knownFinding
	b, err := os.ReadFile(filepath.Join(verifDir, "known_findings.json"))
	if err != nil {
		return nil
	}
	json.Unmarshal(b, &k)
	return k
}

func (d *driver) runProc(bin string, j *job, idx int, timeout time.Duration, race bool) ([]result, string) {
	jf := filepath.Join(d.scratch, fmt.Sprintf("job-%d.json", idx))
	j.Out = filepath.Join(d.scratch, fmt.Sprintf("out-%d.jsonl", idx))
	b, _ := json.Marshal(j)
	os.WriteFile(jf, b, 0o644)
	cmd := exec.Command(bin, "-test.run", "^TestVF$", "-test.cpu", "1", "-test.timeout", "0", "-test.count", "1")
	cmd.Dir = filepath.Join(repoDir, "cmd", "keymasterd")
	rundir := filepath.Join(d.scratch, "run", fmt.Sprintf("p%d", idx))
	if st, err := os.Stat("/dev/shm"); err == nil && st.IsDir() && os.Getenv("VF_NO_SHM") == "" {
		// per-run SQLite files on tmpfs: no real disk I/O in the hot loop
		rundir = filepath.Join("/dev/shm", filepath.Base(d.scratch), fmt.Sprintf("p%d", idx))
	}
	os.MkdirAll(rundir, 0o755)
	cmd.Env = append(os.Environ(), "VF_JOB="+jf, "VF_FIXTURES="+filepath.Join(verifDir, "fixtures"),
		"VF_REPO="+repoDir, "VF_RUNDIR="+rundir, "TMPDIR="+rundir, "GOMAXPROCS="+envOr("VF_GOMAXPROCS", "2"))
	if race {
		cmd.Env = append(cmd.Env, "GORACE=halt_on_error=0 log_path="+filepath.Join(d.scratch, fmt.Sprintf("race-%d", idx)))
	}
	var out bytes.Buffer
	cmd.Stdout, cmd.Stderr = &out, &out
	if err := cmd.Start(); err != nil {
		return nil, "start: " + err.Error()
	}
	done := make(chan error, 1)
	go func() { done <- cmd.Wait() }()
	var werr error
	select {
	case werr = <-done:
	case <-time.After(timeout):
		cmd.Process.Kill()
		<-done
		return readResults(j.Out), fmt.Sprintf("watchdog: process %d exceeded %v\n%s", idx, timeout, tail(out.String(), 30))
	}
	d.lastOutput = out.String()
	res := readResults(j.Out)
	if werr != nil && !(race && (strings.Contains(werr.Error(), "exit status 66") || strings.Contains(out.String(), "race detected during execution of test"))) {
		// the test binary failed outside a run (a crash of the process)
		return res, fmt.Sprintf("process %d: %v\n%s", idx, werr, tail(out.String(), 40))
	}
	return res, ""
}

// productCrash: did the process die from a panic in a goroutine of the code under test (which nothing can recover)?
// Returns the innermost keymaster function of the panicking goroutine.
func productCrash(output string) string {
	i := strings.Index(output, "\npanic: ")
	if i < 0 {
		if !strings.HasPrefix(output, "panic: ") {
			i = strings.Index(output, "fatal error: ")
			if i < 0 {
				return ""
			}
		} else {
			i = 0
		}
	}
	lines := strings.Split(output[i:], "\n")
	for k := 0; k+1 < len(lines) && k < 60; k++ {
		l := strings.TrimSpace(lines[k])
		if !strings.HasPrefix(l, "github.com/Cloud-Foundations/keymaster/") {
			continue
		}
		file := strings.TrimSpace(lines[k+1])
		if strings.Contains(file, "zz_vf") || strings.Contains(file, "/verif/") {
			return "" // the harness panicked (or made the product panic through its own logger.Fatal): not a product crash
		}
		fn := strings.TrimPrefix(l, "github.com/Cloud-Foundations/keymaster/")
		if j := strings.LastIndex(fn, "("); j > 0 {
			fn = fn[:j]
		}
		return fn
	}
	return ""
}

// properties whose statement a dying daemon contradicts
var crashProps = map[string]bool{"C11": true, "C16": true, "C20": true, "C15": true}

func readResults(path string) []result {
	f, err := os.Open(path)
	if err != nil {
		return nil
	}
	defer f.Close()
	var out []result
	sc := bufio.NewScanner(f)
	sc.Buffer(make([]byte, 1<<20), 1<<28)
	for sc.Scan() {
		var r result
		if json.Unmarshal(sc.Bytes(), &r) == nil {
			out = append(out, r)
		}
	}
	return out
}

func (d *driver) run(cmd, replayFile string) int {
	switch cmd {
	case "warm":
		_, rc := d.prepare(false)
		if rc != 0 {
			return rc
		}
		fmt.Printf("warm: built (routes=%d yields=%d hooks=%d) in %.1fs\n", d.gen.Routes, d.gen.Yields, d.gen.Hooks, time.Since(d.start).Seconds())
		d.cleanup()
		return 0
	case "selftest":
		return d.selftest()
	}
	spec := specs[cmd]
	if spec == nil {
		fmt.Fprintf(os.Stderr, "unknown property %s\n", cmd)
		return 2
	}
	if replayFile != "" {
		return d.replay(spec, replayFile)
	}
	return d.check(spec)
}

func (d *driver) replay(spec *propSpec, file string) int {
	raw, err := os.ReadFile(file)
	if err != nil {
		return d.infra("replay file: %v", err)
	}
	var hdr struct {
		Key string `json:"key"`
	}
	json.Unmarshal(raw, &hdr)
	bin, rc := d.prepare(spec.Race)
	if rc != 0 {
		return rc
	}
	j := &job{Prop: spec.ID, Tier: d.tier, Mode: "replay", Replay: raw}
	var seq struct {
		Seeds []int64 `json:"seeds"`
		Tier  string  `json:"tier"`
	}
	json.Unmarshal(raw, &seq)
	if len(seq.Seeds) > 0 {
		// a sequence of simulated lifetimes in one process; the last one is the one that counts
		if seq.Tier != "" {
			j.Tier = seq.Tier
		}
		j.Mode, j.Replay, j.Seeds = "explore", nil, seq.Seeds
	}
	res, perr := d.runProc(bin, j, 0, 20*time.Minute, spec.Race)
	if fn := productCrash(perr); fn != "" && len(seq.Seeds) > 0 {
		fmt.Println(tail(perr, 25))
		fmt.Printf("VIOLATION property=%s replay=%s class=daemon-crash key=daemon-crash:%s\n", spec.ID, file, fn)
		d.cleanup()
		return 1
	}
	if len(seq.Seeds) > 0 {
		var last []result
		for _, r := range res {
			if r.Seed == seq.Seeds[len(seq.Seeds)-1] {
				last = append(last, r)
			}
		}
		res = last
	}
	if perr != "" && len(res) == 0 {
		return d.infra("%s", perr)
	}
	if os.Getenv("VF_LOG") != "" {
		fmt.Println(d.lastOutput)
	}
	rcode := 0
	for _, r := range res {
		if r.Infra != "" {
			return d.infra("%s", r.Infra)
		}
		for _, l := range r.Log {
			fmt.Println(l)
		}
		for _, v := range r.Violations {
			if v.Prop == spec.ID {
				fmt.Printf("VIOLATION property=%s replay=%s class=%s key=%s\n", spec.ID, file, v.Class, v.Key)
				rcode = 1
			}
		}
	}
	if spec.Race {
		for _, rr := range d.collectRaces() {
			fmt.Printf("VIOLATION property=%s replay=%s class=race key=%s\n", spec.ID, file, rr.Key)
			rcode = 1
		}
	}
	if rcode == 0 {
		fmt.Printf("replay of %s: no violation of %s reproduced\n", file, spec.ID)
	}
	d.cleanup()
	return rcode
}

func (d *driver) check(spec *propSpec) int {
	bin, rc := d.prepare(spec.Race)
	if rc != 0 {
		return rc
	}
	buildSecs := time.Since(d.start).Seconds()
	nruns, secs := spec.QuickRuns, spec.QuickSecs
	if d.tier == "thorough" {
		nruns, secs = spec.ThorRuns, spec.ThorSecs
	}
	if d.runs > 0 {
		nruns = d.runs
	}
	nproc := runtime.NumCPU()
	if d.procs > 0 {
		nproc = d.procs
	}
	if nproc > nruns {
		nproc = nruns
	}
	known := loadKnown()
	var knownKeys []string
	for _, k := range known {
		if k.Status == "known" && k.Property == spec.ID {
			knownKeys = append(knownKeys, k.Key)
		}
	}
	deadline := time.Now().Add(time.Duration(secs) * time.Second)
	var mu sync.Mutex
	var all []result
	var perrs []string
	var wg sync.WaitGroup
	runStart := time.Now()
	for p := 0; p < nproc; p++ {
		var seeds []int64
		for i := p; i < nruns; i += nproc {
			seeds = append(seeds, d.seed*1000003+int64(i))
		}
		j := &job{Prop: spec.ID, Tier: d.tier, Mode: "explore", Seeds: seeds, Shrink: 150, Samples: 1, Known: knownKeys, Deadline: deadline.Unix()}
		if d.tier == "thorough" {
			j.Shrink = 600
		}
		wg.Add(1)
		go func(p int, j *job) {
			defer wg.Done()
			res, perr := d.runProc(bin, j, p, time.Duration(secs)*time.Second+10*time.Minute, spec.Race)
			mu.Lock()
			all = append(all, res...)
			if perr != "" {
				perrs = append(perrs, perr)
			}
			mu.Unlock()
		}(p, j)
	}
	wg.Wait()
	runSecs := time.Since(runStart).Seconds()
	sort.Slice(all, func(i, j int) bool { return all[i].Seed < all[j].Seed })
	var crashLines []string
	if len(perrs) > 0 {
		// a process died.  If the code under test panicked in a goroutine of its own and the property speaks about
		// that, find the run, replay it alone in a fresh process, and report it if it dies again.
		handled := 0
		seenCrash := map[string]bool{}
		for _, pe := range perrs {
			fn := productCrash(pe)
			if fn == "" || !crashProps[spec.ID] {
				continue
			}
			if seenCrash[fn] {
				handled++
				continue
			}
			var pidx int
			fmt.Sscanf(pe, "process %d:", &pidx)
			done := map[int64]bool{}
			for _, r := range all {
				done[r.Seed] = true
			}
			var culprit int64 = -1
			for i := pidx; i < nruns; i += nproc {
				if sd := d.seed*1000003 + int64(i); !done[sd] {
					culprit = sd
					break
				}
			}
			if culprit < 0 {
				continue
			}
			j := &job{Prop: spec.ID, Tier: d.tier, Mode: "explore", Seeds: []int64{culprit}, Shrink: 0, Samples: 0, Known: knownKeys}
			_, perr2 := d.runProc(bin, j, 903, 20*time.Minute, spec.Race)
			if fn2 := productCrash(perr2); fn2 != "" {
				key := "daemon-crash:" + fn2
				dir := filepath.Join(verifDir, "replays", spec.ID)
				if d.replayDir != "" {
					dir = filepath.Join(d.replayDir, spec.ID)
				}
				os.MkdirAll(dir, 0o755)
				path := filepath.Join(dir, fmt.Sprintf("%d-%s.json", culprit, sanitize(key)))
				b, _ := json.MarshalIndent(map[string]any{"property": spec.ID, "key": key, "class": "daemon-crash", "tier": d.tier, "seeds": []int64{culprit},
					"note": "the run of this seed kills the process: a goroutine of the code under test panics (see the trace when replayed)"}, "", " ")
				os.WriteFile(path, b, 0o644)
				seenCrash[fn] = true
				crashLines = append(crashLines, fmt.Sprintf("VIOLATION property=%s replay=%s class=daemon-crash key=%s runs=1 detail=%q", spec.ID, path, key, "a goroutine of the code under test panicked and took the whole process down: "+firstLine(perr2)))
				handled++
			}
		}
		if handled < len(perrs) && len(crashLines) == 0 {
			return d.infra("%s", strings.Join(perrs, "\n"))
		}
	}
	if len(all) == 0 && len(crashLines) == 0 {
		return d.infra("no runs completed")
	}
	for _, r := range all {
		if r.Infra != "" {
			return d.infra("seed %d: %s", r.Seed, r.Infra)
		}
	}
	// aggregate
	ev := newEvidence(spec, d)
	ev.absorb(all)
	ev.Coverage["build_s"] = round1(buildSecs)
	ev.Coverage["run_wall_s"] = round1(runSecs)
	if runSecs > 0 {
		ev.Coverage["runs_per_hour"] = int(float64(len(all)) / runSecs * 3600)
	}
	ev.Coverage["processes"] = nproc
	ev.Coverage["planned_runs"] = nruns

	// violations of this property: group by key
	type vgroup struct {
		v     violation
		first *result
		plan  json.RawMessage
		firstShrunk int
		count int
	}
	groups := map[string]*vgroup{}
	var keys []string
	for i := range all {
		r := &all[i]
		seen := map[string]bool{}
		for _, v := range r.Violations {
			if v.Prop != spec.ID || seen[v.Key] {
				continue
			}
			seen[v.Key] = true
			g := groups[v.Key]
			if g == nil {
				g = &vgroup{v: v}
				groups[v.Key] = g
				keys = append(keys, v.Key)
			}
			g.count++
			// prefer a run whose plan was minimised for this key
			if pl, ok := r.Plans[v.Key]; ok && len(pl) > 0 {
				if g.first == nil || (r.ShrunkRuns > 0 && g.firstShrunk == 0) {
					g.first, g.plan, g.firstShrunk = r, pl, r.ShrunkRuns
				}
			}
		}
	}
	sort.Strings(keys)
	exit := 0
	var knownSeen []string
	var lines []string
	if len(crashLines) > 0 {
		lines = append(lines, crashLines...)
		exit = 1
	}
	for _, k := range keys {
		g := groups[k]
		if kf := matchKnown(known, spec.ID, k); kf != nil {
			lines = append(lines, fmt.Sprintf("KNOWN-FINDING: property=%s %s (%s) seen in %d runs", spec.ID, k, kf.What, g.count))
			knownSeen = append(knownSeen, k)
			continue
		}
		// a new violation: write the replay file, verify it in a fresh process
		if g.first == nil || len(g.plan) == 0 {
			return d.infra("violation %s without a plan", k)
		}
		dir := filepath.Join(verifDir, "replays", spec.ID)
		if d.replayDir != "" {
			dir = filepath.Join(d.replayDir, spec.ID)
		}
		os.MkdirAll(dir, 0o755)
		name := fmt.Sprintf("%d-%s.json", g.first.Seed, sanitize(k))
		path := filepath.Join(dir, name)
		var pretty bytes.Buffer
		json.Indent(&pretty, g.plan, "", " ")
		os.WriteFile(path, pretty.Bytes(), 0o644)
		j := &job{Prop: spec.ID, Tier: d.tier, Mode: "replay", Replay: g.plan}
		// The simulator's own choices replay exactly.  Code under test may still consult something the simulator
		// does not own (Go's randomised map iteration order is the one source met so far): then a replay can come out
		// differently.  The replay is repeated in fresh processes; a violation is reported only if a replay shows it
		// again, with the count, and never on the strength of the exploration run alone.
		ok, tries := 0, 0
		perr := ""
		for tries < 24 && ok == 0 {
			tries++
			var rr []result
			rr, perr = d.runProc(bin, j, 900, 10*time.Minute, spec.Race)
			for _, r := range rr {
				for _, v := range r.Violations {
					if v.Prop == spec.ID && v.Key == k {
						ok++
					}
				}
			}
		}
		if ok == 0 && len(g.first.Plan) > 0 && !bytes.Equal(g.first.Plan, g.plan) {
			// the minimised plan does not show it: fall back to the plan of the run that did (unminimised)
			var full bytes.Buffer
			json.Indent(&full, g.first.Plan, "", " ")
			os.WriteFile(path, full.Bytes(), 0o644)
			j.Replay = g.first.Plan
			for t2 := 0; t2 < 6 && ok == 0; t2++ {
				tries++
				var rr []result
				rr, perr = d.runProc(bin, j, 900, 10*time.Minute, spec.Race)
				for _, r := range rr {
					for _, v := range r.Violations {
						if v.Prop == spec.ID && v.Key == k {
							ok++
						}
					}
				}
			}
		}
		seqNote := ""
		if ok == 0 {
			// Third attempt: the run together with the runs that preceded it in its process.  One process plays many
			// simulated daemon lifetimes; state the simulator cannot reset (package-level variables of library packages)
			// survives from one to the next, exactly as it survives between requests of one real daemon.
			base := d.seed * 1000003
			idx := int(g.first.Seed - base)
			if idx >= 0 && idx < nruns {
				var seeds []int64
				for q := idx % nproc; q <= idx; q += nproc {
					seeds = append(seeds, base+int64(q))
				}
				j3 := &job{Prop: spec.ID, Tier: d.tier, Mode: "explore", Seeds: seeds, Shrink: 0, Samples: 0, Known: knownKeys}
				rr, perr3 := d.runProc(bin, j3, 902, 20*time.Minute, spec.Race)
				perr = perr3
				for _, r := range rr {
					if r.Seed != g.first.Seed {
						continue
					}
					for _, v := range r.Violations {
						if v.Prop == spec.ID && v.Key == k {
							ok++
						}
					}
				}
				if ok > 0 {
					seqFile, _ := json.MarshalIndent(map[string]any{"property": spec.ID, "key": k, "class": g.v.Class, "tier": d.tier, "seeds": seeds,
						"note": "run the seeds in this order in ONE process: the violation shows at the last one; it depends on state that survives from one simulated daemon lifetime to the next (process-global state outside cmd/keymasterd)"}, "", " ")
					os.WriteFile(path, seqFile, 0o644)
					seqNote = fmt.Sprintf(" replay_note=%q", fmt.Sprintf("reproduces only after the %d runs that precede it in its process: process-global state of the code under test leaks between simulated lifetimes", len(seeds)-1))
				}
			}
		}
		if ok == 0 {
			return d.infra("violation %s (seed %d) did not reproduce from its replay file %s in %d fresh processes (%v)", k, g.first.Seed, path, tries, perr)
		}
		note := seqNote
		if tries > 1 && seqNote == "" {
			note = fmt.Sprintf(" replay_note=%q", fmt.Sprintf("reproduced in replay %d of %d: the code under test depends on a source of nondeterminism outside the simulator (e.g. map iteration order)", tries, tries))
		}
		lines = append(lines, fmt.Sprintf("VIOLATION property=%s replay=%s class=%s key=%s runs=%d detail=%q%s", spec.ID, path, g.v.Class, k, g.count, g.v.Detail, note))
		exit = 1
	}
	if spec.Race {
		races := d.collectRaces()
		ev.Coverage["race_reports_product"] = len(races)
		for _, rr := range races {
			if kf := matchKnown(known, spec.ID, rr.Key); kf != nil {
				lines = append(lines, fmt.Sprintf("KNOWN-FINDING: property=%s %s (%s)", spec.ID, rr.Key, kf.What))
				knownSeen = append(knownSeen, rr.Key)
				continue
			}
			dir := filepath.Join(verifDir, "replays", spec.ID)
			if d.replayDir != "" {
				dir = filepath.Join(d.replayDir, spec.ID)
			}
			os.MkdirAll(dir, 0o755)
			path := filepath.Join(dir, "race-"+sanitize(rr.Key)+".txt")
			os.WriteFile(path, []byte(rr.Text), 0o644)
			lines = append(lines, fmt.Sprintf("VIOLATION property=%s replay=%s class=race key=%s", spec.ID, path, rr.Key))
			exit = 1
		}
	}
	nviol := 0
	for _, l := range lines {
		fmt.Println(l)
		if strings.HasPrefix(l, "VIOLATION") {
			nviol++
		}
	}
	ev.Violations = nviol
	ev.Coverage["known_findings_seen"] = knownSeen
	ev.WallS = round1(time.Since(d.start).Seconds())
	if !d.noEvidence {
		if err := ev.write(); err != nil {
			return d.infra("evidence: %v", err)
		}
	}
	fmt.Printf("%s %s: %d runs (%d distinct non-trivial), %.0f simulated hours, %d violations, %d known findings, %.1fs\n",
		spec.ID, d.tier, len(all), ev.Coverage["distinct_nontrivial"], ev.simHours, nviol, len(knownSeen), time.Since(d.start).Seconds())
	d.cleanup()
	return exit
}

func matchKnown(known []knownFinding, prop, key string) *knownFinding {
	for i := range known {
		k := &known[i]
		if k.Status == "known" && k.Property == prop && k.Key == key {
			return k
		}
	}
	return nil
}

func sanitize(s string) string {
	var b strings.Builder
	for _, r := range s {
		if (r >= 'a' && r <= 'z') || (r >= 'A' && r <= 'Z') || (r >= '0' && r <= '9') || r == '-' || r == '_' {
			b.WriteRune(r)
		} else {
			b.WriteByte('_')
		}
	}
	out := b.String()
	if len(out) > 80 {
		h := sha256.Sum256([]byte(s))
		out = out[:60] + fmt.Sprintf("_%x", h[:4])
	}
	return out
}

func round1(f float64) float64 { return float64(int(f*10+0.5)) / 10 }

// ---- evidence -------------------------------------------------------------------

type evidence struct {
	PropertyID  string         `json:"property_id"`
	Tier        string         `json:"tier"`
	Seed        int64          `json:"seed"`
	Level       string         `json:"level"`
	Coverage    map[string]any `json:"coverage"`
	Assumptions []string       `json:"assumptions"`
	WallS       float64        `json:"wall_s"`
	Violations  int            `json:"violations"`
	simHours    float64
}

func newEvidence(spec *propSpec, d *driver) *evidence {
	return &evidence{PropertyID: spec.ID, Tier: d.tier, Seed: d.seed, Level: spec.Level, Coverage: map[string]any{},
		Assumptions: append(append([]string{}, commonStub...), spec.Assume...)}
}

func (e *evidence) absorb(all []result) {
	faults := map[string]int{}
	probes := map[string]int{}
	hist := map[string]bool{}
	histNT := map[string]bool{}
	scheds := map[string]bool{}
	cells := map[string]bool{}
	var sim float64
	steps, reqs, multi, panics, variants := 0, 0, 0, 0, 0
	var samples []any
	for _, r := range all {
		if r.Rule != "" {
			e.Coverage["rule"] = r.Rule
		}
		if r.Variant != "" {
			variants++
		}
		for k, v := range r.Faults {
			faults[k] += v
		}
		for k, v := range r.Probes {
			probes[k] += v
		}
		hist[r.HistHash] = true
		if r.Nontrivial {
			histNT[r.HistHash] = true
		}
		if r.Multi > 0 {
			scheds[r.SchedHash] = true
		}
		for _, c := range r.Cells {
			cells[c] = true
		}
		sim += r.SimSeconds
		steps += r.Steps
		reqs += r.Requests
		multi += r.Multi
		panics += r.Panics
		if len(r.Log) > 0 && len(samples) < 3 {
			l := r.Log
			if len(l) > 40 {
				l = l[:40]
			}
			samples = append(samples, map[string]any{"seed": r.Seed, "history": l})
		}
	}
	if len(samples) == 0 {
		samples = append(samples, "no sample captured")
	}
	e.simHours = sim / 3600
	e.Coverage["evaluations"] = len(all)
	e.Coverage["distinct_nontrivial"] = len(histNT)
	e.Coverage["distinct_histories"] = len(hist)
	e.Coverage["samples"] = samples
	e.Coverage["simulated_hours"] = round1(sim / 3600)
	e.Coverage["steps"] = steps
	e.Coverage["requests_served"] = reqs
	e.Coverage["faults_injected"] = faults
	e.Coverage["reach_probes"] = probes
	e.Coverage["distinct_interleavings"] = len(scheds)
	e.Coverage["scheduling_decisions_with_choice"] = multi
	e.Coverage["coverage_cells_reached"] = len(cells)
	e.Coverage["handler_panics_recovered"] = panics
	if variants > 0 {
		e.Coverage["fault_position_variants"] = variants
		e.Coverage["base_histories"] = len(all) - variants
		e.Coverage["exhaustive"] = false
		e.Coverage["enumeration_note"] = "histories are sampled by seed; for each sampled history every driver-call position of every synchronisation is faulted (error and crash): that per-history fault space is enumerated completely"
	}
	e.Coverage["components_real"] = append(append([]string{}, commonReal...), specs[e.PropertyID].Real...)
	e.Coverage["components_stubbed"] = append(append([]string{}, commonStub...), specs[e.PropertyID].Stub...)
	var zero []string
	for k, v := range probes {
		if v == 0 {
			zero = append(zero, k)
		}
	}
	sort.Strings(zero)
	e.Coverage["probes_at_zero"] = zero
}

func (e *evidence) write() error {
	dir := filepath.Join(verifDir, "evidence")
	if e := os.Getenv("VF_EVIDENCE_DIR"); e != "" {
		dir = e // development runs against a scratch copy of the repository keep their evidence apart
	}
	os.MkdirAll(dir, 0o755)
	b, err := json.MarshalIndent(e, "", " ")
	if err != nil {
		return err
	}
	return os.WriteFile(filepath.Join(dir, e.PropertyID+".json"), b, 0o644)
}

// ---- race reports ---------------------------------------------------------------------

type raceReport struct {
	Key  string
	Text string
}

func (d *driver) collectRaces() []raceReport {
	files, _ := filepath.Glob(filepath.Join(d.scratch, "race-*"))
	seen := map[string]bool{}
	var out []raceReport
	for _, f := range files {
		b, err := os.ReadFile(f)
		if err != nil {
			continue
		}
		for _, rep := range strings.Split(string(b), "==================") {
			if !strings.Contains(rep, "WARNING: DATA RACE") {
				continue
			}
			key, product := classifyRace(rep)
			if !product || seen[key] {
				continue
			}
			seen[key] = true
			out = append(out, raceReport{Key: key, Text: rep})
		}
	}
	sort.Slice(out, func(i, j int) bool { return out[i].Key < out[j].Key })
	return out
}

// classifyRace: a report counts only if the top frame of BOTH accesses that is
// not in the runtime/stdlib lies in product code (not in zz_vf harness files).
func classifyRace(rep string) (string, bool) {
	lines := strings.Split(rep, "\n")
	var tops []string
	inAccess := false
	for i := 0; i < len(lines); i++ {
		l := lines[i]
		t := strings.TrimSpace(l)
		if strings.HasPrefix(t, "Read at") || strings.HasPrefix(t, "Write at") || strings.HasPrefix(t, "Previous read at") || strings.HasPrefix(t, "Previous write at") {
			inAccess = true
			continue
		}
		if strings.HasPrefix(t, "Goroutine ") {
			inAccess = false
			continue
		}
		if inAccess && t != "" && !strings.HasPrefix(t, "/") && i+1 < len(lines) {
			fn := t
			file := strings.TrimSpace(lines[i+1])
			if strings.Contains(file, "/opt/veriftools/") || strings.Contains(file, "/go/pkg/mod/") || strings.Contains(file, "/usr/") {
				continue
			}
			tops = append(tops, fn+"|"+file)
			inAccess = false
		}
	}
	if len(tops) < 2 {
		return "", false
	}
	// The memory raced on must be the product's business: at least one of the two accesses is made directly by
	// keymaster code (or by the standard library on its behalf), not both from inside a third-party module working on
	// its own package-level state (met: Dominator's lib/html header cache under two dashboard requests).
	direct := 0
	inAccess = false
	for i := 0; i < len(lines); i++ {
		t := strings.TrimSpace(lines[i])
		if strings.HasPrefix(t, "Read at") || strings.HasPrefix(t, "Write at") || strings.HasPrefix(t, "Previous read at") || strings.HasPrefix(t, "Previous write at") {
			inAccess = true
			continue
		}
		if strings.HasPrefix(t, "Goroutine ") {
			inAccess = false
			continue
		}
		if inAccess && t != "" && !strings.HasPrefix(t, "/") && i+1 < len(lines) {
			file := strings.TrimSpace(lines[i+1])
			if strings.Contains(file, "/opt/veriftools/") || strings.Contains(file, "/usr/") {
				continue // standard library / runtime frame: look at its caller
			}
			if !strings.Contains(file, "/go/pkg/mod/") {
				direct++
			}
			inAccess = false
		}
	}
	if direct == 0 {
		return "", false
	}
	var fns []string
	for _, t := range tops[:2] {
		p := strings.SplitN(t, "|", 2)
		if strings.Contains(p[1], "zz_vf") || strings.Contains(p[1], "/verif/") {
			return "", false
		}
		fn := p[0]
		if i := strings.Index(fn, "("); i > 0 && strings.HasSuffix(fn, ")") {
			// strip argument list
			if j := strings.LastIndex(fn, "("); j > 0 {
				fn = fn[:j]
			}
		}
		fn = strings.TrimPrefix(fn, "github.com/Cloud-Foundations/keymaster/")
		fns = append(fns, fn)
	}
	sort.Strings(fns)
	return "race:" + fns[0] + "<>" + fns[1], true
}

// ---- determinism self-test --------------------------------------------------------------

func (d *driver) selftest() int {
	bin, rc := d.prepare(false)
	if rc != 0 {
		return rc
	}
	props := []string{}
	for id, s := range specs {
		if !s.Race {
			props = append(props, id)
		}
	}
	sort.Strings(props)
	nseeds := 12
	bad := 0
	total := 0
	type key struct {
		prop string
		gmp  string
	}
	for _, prop := range props {
		var seeds []int64
		for i := 0; i < nseeds; i++ {
			seeds = append(seeds, d.seed*7919+int64(i))
		}
		hashes := map[int64]map[string]bool{}
		var mu sync.Mutex
		var wg sync.WaitGroup
		idx := 0
		for _, gmp := range []string{"1", "4", "16"} {
			for rep := 0; rep < 2; rep++ {
				idx++
				wg.Add(1)
				go func(idx int, gmp string) {
					defer wg.Done()
					j := &job{Prop: prop, Tier: "quick", Mode: "explore", Seeds: seeds, Shrink: 0, Samples: 0}
					os.Setenv("VF_GOMAXPROCS", gmp)
					res, perr := d.runProc(bin, j, 1000+idx+len(props)*0, 15*time.Minute, false)
					mu.Lock()
					defer mu.Unlock()
					if perr != "" {
						fmt.Println("selftest process error:", perr)
						bad++
					}
					for _, r := range res {
						k := r.Seed*1000003 + int64(len(r.Variant))*7919
						for _, c := range r.Variant {
							k = k*131 + int64(c)
						}
						if hashes[k] == nil {
							hashes[k] = map[string]bool{}
						}
						hashes[k][r.HistHash+"/"+r.SchedHash] = true
					}
				}(idx*100+len(prop), gmp)
			}
		}
		wg.Wait()
		for s, h := range hashes {
			total++
			if len(h) != 1 {
				fmt.Printf("NON-DETERMINISTIC: property=%s seed=%d produced %d different logs\n", prop, s, len(h))
				bad++
			}
		}
	}
	fmt.Printf("selftest: %d (property,seed) pairs x 6 executions (GOMAXPROCS 1/4/16), %d divergent\n", total, bad)
	d.cleanup()
	if bad > 0 {
		return 2
	}
	return 0
}
