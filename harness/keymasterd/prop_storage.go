package main

// C15: profiles survive storage round trips; the offline cache mirrors the
// primary; an interrupted synchronisation leaves old or new content, never a
// mixture; while the primary is unreachable authentication continues from the
// cache and every profile-changing operation is refused.
//
// Histories are seeded; for every synchronisation of a history EVERY driver
// call position is faulted (statement error and crash) - the fault space of a
// history is enumerated completely (fault_enumeration).

import (
	"crypto/sha256"
	"database/sql"
	"fmt"
	"math/rand/v2"
	"net/url"
	"path/filepath"
	"reflect"
	"sort"
	"strconv"
	"strings"
	"testing/synctest"
	"time"
)

type vfRows struct {
	Profiles map[string]string // username -> digest of profile_data
	Signed   map[string]string // "username/type" -> digest(jws,exp)
}

func (a *vfRows) equal(b *vfRows) bool {
	return reflect.DeepEqual(a.Profiles, b.Profiles) && reflect.DeepEqual(a.Signed, b.Signed)
}

// equalProtected ignores the password-hash cache records (type 1): evicting one when the directory rejects a
// password is the designed reaction to a wrong guess, not a protected effect
func (a *vfRows) equalProtected(b *vfRows) bool {
	if !reflect.DeepEqual(a.Profiles, b.Profiles) {
		return false
	}
	strip := func(m map[string]string) map[string]string {
		o := map[string]string{}
		for k, v := range m {
			if !strings.HasSuffix(k, "/1") {
				o[k] = v
			}
		}
		return o
	}
	return reflect.DeepEqual(strip(a.Signed), strip(b.Signed))
}

func (a *vfRows) String() string {
	var p, s []string
	for k, v := range a.Profiles {
		p = append(p, k+"="+v[:6])
	}
	for k, v := range a.Signed {
		s = append(s, k+"="+v[:6])
	}
	sort.Strings(p)
	sort.Strings(s)
	return "users{" + strings.Join(p, ",") + "} signed{" + strings.Join(s, ",") + "}"
}

func (a *vfRows) diffKind(want *vfRows) string {
	for k := range a.Profiles {
		if _, ok := want.Profiles[k]; !ok {
			return "deleted-user-remains"
		}
	}
	for k, v := range want.Profiles {
		if got, ok := a.Profiles[k]; !ok {
			return "user-missing"
		} else if got != v {
			return "user-stale"
		}
	}
	for k := range a.Signed {
		if _, ok := want.Signed[k]; !ok {
			return "deleted-record-remains"
		}
	}
	for k, v := range want.Signed {
		if got, ok := a.Signed[k]; !ok {
			return "record-missing"
		} else if got != v {
			return "record-stale"
		}
	}
	return "same"
}

// raw, unobserved read access to the two database files
func (w *vfWorld) rawDB(file string) *sql.DB {
	if w.raw == nil {
		w.raw = map[string]*sql.DB{}
	}
	if db := w.raw[file]; db != nil {
		return db
	}
	db, err := sql.Open("sqlite3", "file:"+filepath.Join(w.dir, file)+"?_busy_timeout=0&_journal_mode=WAL")
	if err != nil {
		panic(err)
	}
	w.raw[file] = db
	return db
}

func (w *vfWorld) closeRaw() {
	for _, db := range w.raw {
		db.Close()
	}
	w.raw = nil
}

func (w *vfWorld) snapshot(file string) *vfRows {
	db := w.rawDB(file)
	out := &vfRows{Profiles: map[string]string{}, Signed: map[string]string{}}
	rows, err := db.Query("SELECT username, profile_data FROM user_profile")
	if err != nil {
		panic(fmt.Sprintf("vf: snapshot %s: %v", file, err))
	}
	for rows.Next() {
		var u string
		var b []byte
		if err := rows.Scan(&u, &b); err != nil {
			panic(err)
		}
		out.Profiles[u] = fmt.Sprintf("%x", sha256.Sum256(b))
	}
	rows.Close()
	rows, err = db.Query("SELECT username, type, jws_data, expiration_epoch FROM expiring_signed_user_data WHERE expiration_epoch > ?", time.Now().Unix())
	if err != nil {
		panic(err)
	}
	for rows.Next() {
		var u, j string
		var t int
		var e int64
		if err := rows.Scan(&u, &t, &j, &e); err != nil {
			panic(err)
		}
		out.Signed[fmt.Sprintf("%s/%d", u, t)] = fmt.Sprintf("%x", sha256.Sum256([]byte(fmt.Sprintf("%s|%d", j, e))))
	}
	rows.Close()
	return out
}

func (w *vfWorld) dbDigest() string {
	p := w.snapshot(profileDBFilename)
	return p.String()
}

// reopen both databases as a restarted process would (only what SQLite made
// durable survives)
func (w *vfWorld) restartStorage() {
	st := w.state
	close(st.dbDone)
	synctest.Wait()
	st.db.Close()
	st.cacheDB.Close()
	w.primary = &vfDB{name: "primary"}
	w.cache = &vfDB{name: "cache"}
	vfRegisterDB(w.dbKey+"-p", w.primary)
	vfRegisterDB(w.dbKey+"-c", w.cache)
	if err := w.openDBs(st); err != nil {
		panic(err)
	}
	st.dbDone = make(chan struct{})
	go st.BackgroundDBCopy(st.Config.ProfileStorage.SyncDelay, st.dbDone, vfNopLogger{})
}

func init() {
	// direct storage operations (the storage API is the public surface of storage.go)
	vfExtraOps["st_save"] = func(w *vfWorld, st vfStep, p *vfPrepared) *vfPrepared {
		p.env = func() {
			prof, _, _, err := w.state.LoadUserProfile(st.User)
			if err != nil {
				w.logf("st_save load error %v", err)
				return
			}
			prof.DisplayName = fmt.Sprintf("name-%d", st.N)
			prof.Username = st.User
			switch st.A {
			case "toggle":
				for _, d := range prof.TOTPAuthData {
					d.Enabled = !d.Enabled
				}
				for _, d := range prof.U2fAuthData {
					d.Enabled = !d.Enabled
				}
			case "rename-secret":
				for _, d := range prof.U2fAuthData {
					d.Name = vfSecretTokenName
				}
				for _, d := range prof.TOTPAuthData {
					d.Name = vfSecretTokenName
				}
			case "rename":
				for _, d := range prof.U2fAuthData {
					d.Name = fmt.Sprintf("tok-%d", st.N)
				}
			case "otp":
				prof.BootstrapOTP = bootstrapOTPData{ExpiresAt: time.Now().Add(time.Hour), Sha512Hash: []byte(fmt.Sprintf("hash-%d-0123456789", st.N))}
			}
			if strings.HasPrefix(st.C, "fault:") {
				// the k-th driver call of this save fails (disk / connection error at that statement, COMMIT included)
				var k int
				fmt.Sscanf(st.C, "fault:%d", &k)
				w.primary.arm("error", k)
			}
			err = w.state.SaveUserProfile(st.User, prof)
			if strings.HasPrefix(st.C, "fault:") {
				if fired, _ := w.primary.disarm(); fired {
					w.fault("db.stmt.error")
					w.probe("save-fault-fired")
				}
			}
			if err != nil {
				w.logf("st_save error %v", err)
				return
			}
			// save -> load identity through the primary
			back, ok, fromCache, err := w.state.LoadUserProfile(st.User)
			if err != nil || !ok || fromCache {
				w.violate("C15", "roundtrip-mismatch", "roundtrip-mismatch:load", fmt.Sprintf("saved profile of %s not readable: ok=%v cache=%v err=%v", st.User, ok, fromCache, err))
				return
			}
			if !reflect.DeepEqual(vfProfileCanon(prof), vfProfileCanon(back)) {
				w.violate("C15", "roundtrip-mismatch", "roundtrip-mismatch:primary", fmt.Sprintf("profile of %s read back differs", st.User))
			}
			w.probe("profile-roundtrip")
		}
		return p
	}
	vfExtraOps["st_delete"] = func(w *vfWorld, st vfStep, p *vfPrepared) *vfPrepared {
		p.env = func() {
			if err := w.state.DeleteUserProfile(st.User); err != nil {
				w.logf("st_delete error %v", err)
			}
		}
		return p
	}
	vfExtraOps["st_upsert"] = func(w *vfWorld, st vfStep, p *vfPrepared) *vfPrepared {
		p.env = func() {
			d, _ := time.ParseDuration(st.D)
			exp := time.Now().Add(d).Unix()
			if err := w.state.UpsertSigned(st.User, int(st.N), exp, st.A); err != nil {
				w.logf("st_upsert error %v", err)
				return
			}
			ok, data, err := w.state.GetSigned(st.User, int(st.N))
			if d > time.Second {
				if err != nil || !ok || data != st.A {
					w.violate("C15", "roundtrip-mismatch", "roundtrip-mismatch:signed", fmt.Sprintf("signed record of %s read back ok=%v err=%v", st.User, ok, err))
				}
			}
		}
		return p
	}
	vfExtraOps["st_delsigned"] = func(w *vfWorld, st vfStep, p *vfPrepared) *vfPrepared {
		p.env = func() {
			if err := w.state.DeleteSigned(st.User, int(st.N)); err != nil {
				w.logf("st_delsigned error %v", err)
			}
		}
		return p
	}
	// sync: A = "" | error | crash ; B = cache | primary ; N = call index (1-based)
	vfExtraOps["sync"] = func(w *vfWorld, st vfStep, p *vfPrepared) *vfPrepared {
		p.env = func() { w.doSync(st) }
		return p
	}
	// after a quiet period longer than the sync interval the timer-driven copy must have mirrored the primary
	vfExtraOps["cmp_after_interval"] = func(w *vfWorld, st vfStep, p *vfPrepared) *vfPrepared {
		p.env = func() {
			time.Sleep(w.state.Config.ProfileStorage.SyncInterval + w.state.Config.ProfileStorage.SyncDelay + time.Second)
			synctest.Wait()
			w.fault("clock.advance")
			if w.stalled {
				return
			}
			prim, cache := w.snapshot(profileDBFilename), w.snapshot(cachedDBFilename)
			w.probe("timer-sync-compared")
			if !cache.equal(prim) {
				k := cache.diffKind(prim)
				w.violate("C15", "cache-differs-after-sync", "cache-differs-after-sync:"+k+":timer",
					fmt.Sprintf("after a full sync interval without writes cache=%s primary=%s", cache, prim))
			}
		}
		return p
	}
	// outage: primary unreachable (every call fails after the read deadline has passed)
	vfExtraOps["outage"] = func(w *vfWorld, st vfStep, p *vfPrepared) *vfPrepared {
		p.env = func() {
			w.fault("db.primary.down")
			if st.A == "fast" {
				// connection refused at once instead of a time-out
				w.fault("db.primary.refused")
				w.primary.setDown(time.Millisecond)
			} else {
				w.primary.setDown(2500 * time.Millisecond)
			}
			w.stalled = true
			w.offlineDigest = w.dbDigest()
		}
		return p
	}
	vfExtraOps["outage_end"] = func(w *vfWorld, st vfStep, p *vfPrepared) *vfPrepared {
		p.env = func() {
			if !w.stalled {
				return
			}
			// abandoned primary reads finish (and fail) in the background
			time.Sleep(3 * time.Second)
			synctest.Wait()
			w.primary.setDown(0)
			w.stalled = false
			if d := w.dbDigest(); d != w.offlineDigest {
				w.violate("C15", "write-while-offline", "write-while-offline:digest", "primary content changed during the outage: "+w.offlineDigest+" -> "+d)
			}
		}
		return p
	}
	// a profile-changing request made during the outage: must be refused
	vfExtraOps["mutate"] = func(w *vfWorld, st vfStep, p *vfPrepared) *vfPrepared {
		s := w.session(st.Sess)
		ck := map[string]string{authCookieName: w.setupCookie(st.User)}
		_ = s
		var r *vfReq
		f := w.model.user(st.User)
		switch st.A {
		case "manage_totp":
			r = &vfReq{Method: "POST", Path: "/api/v0/manageTOTPToken", Form: url.Values{"username": {st.User}, "index": {strconv.FormatInt(f.TOTPIndex, 10)}, "action": {st.B}, "name": {"renamed"}}}
		case "manage_u2f":
			idx := int64(0)
			for _, t := range f.U2FTokens {
				idx = t.Index
			}
			r = &vfReq{Method: "POST", Path: "/api/v0/manageU2FToken", Form: url.Values{"username": {st.User}, "index": {strconv.FormatInt(idx, 10)}, "action": {st.B}, "name": {"renamed"}}}
		case "totp_new":
			r = &vfReq{Method: "POST", Path: "/totp/GenerateNew/"}
		case "u2f_regreq":
			r = &vfReq{Method: "GET", Path: "/u2f/RegisterRequest/" + st.User}
		case "add_user":
			ck = map[string]string{authCookieName: w.setupCookie("root")}
			r = &vfReq{Method: "POST", Path: "/admin/addUser", Form: url.Values{"username": {"newuser" + strconv.FormatInt(st.N, 10)}}}
		case "delete_user":
			ck = map[string]string{authCookieName: w.setupCookie("root")}
			r = &vfReq{Method: "POST", Path: "/admin/deleteUser", Form: url.Values{"username": {st.User}}}
		case "new_bootstrap":
			ck = map[string]string{authCookieName: w.setupCookie("root")}
			r = &vfReq{Method: "POST", Path: "/admin/newBoostrapOTP", Form: url.Values{"username": {st.User}}}
		case "login":
			ck = map[string]string{}
			r = &vfReq{Method: "POST", Path: "/api/v0/login", Form: url.Values{"username": {st.User}, "password": {w.dirsim.Password[st.User]}}}
		default:
			return nil
		}
		r.Cookies = ck
		p.call = w.prepare(r)
		p.intent.Op = "mutate:" + st.A
		before := ""
		if st.C == "midheal" && !w.stalled {
			// the outage ends in the middle of this request: its first calls find the primary unreachable, later ones succeed
			before = w.dbDigest()
			w.fault("db.primary.down.partial")
			switch {
			case st.A == "login":
				// every read of this request times out; its writes would get through
				w.primary.setReadsDown(2500 * time.Millisecond)
			case st.N%2 == 0:
				w.primary.setDownCalls(1+int(st.N)%3, 2500*time.Millisecond)
			default:
				w.primary.setDownCalls(1+int(st.N)%3, time.Millisecond)
			}
		}
		p.after = func(resp *vfResp) {
			if before != "" {
				w.primary.setDownCalls(0, 0)
				w.primary.setReadsDown(0)
				time.Sleep(3 * time.Second)
				synctest.Wait()
				w.probe("mutation-across-outage-end")
				if after := w.dbDigest(); st.A == "login" && after != before && w.cacheReadSeen() {
					w.violate("C15", "write-after-cached-read", "write-after-cached-read:login",
						fmt.Sprintf("a login whose profile read was served from the cache (primary unreachable) changed the primary's content (status %d)", resp.Code))
				} else if resp.Code >= 400 && after != before {
					w.violate("C15", "write-by-refused-request", "write-by-refused-request:"+st.A,
						fmt.Sprintf("%s %s was refused (%d) because the primary was unreachable when it was read, yet the primary's content changed", st.A, st.B, resp.Code))
				}
				return
			}
			if !w.stalled {
				return
			}
			w.probe("mutation-while-offline")
			if resp.Code >= 200 && resp.Code < 400 {
				w.violate("C15", "write-while-offline", "write-while-offline:"+st.A+":"+st.B,
					fmt.Sprintf("%s %s answered %d while the primary was unreachable", st.A, st.B, resp.Code))
			}
		}
		return p
	}
	// authentication from the cache during the outage
	vfExtraOps["offline_auth"] = func(w *vfWorld, st vfStep, p *vfPrepared) *vfPrepared {
		p.env = func() {
			if !w.stalled || !w.cacheSynced[st.User] {
				return
			}
			s := w.session("off-" + st.User)
			resp := w.serve(&vfReq{Method: "POST", Path: "/api/v0/login", Form: url.Values{"username": {st.User}, "password": {w.dirsim.Password[st.User]}}})
			w.probe("fromCache-login")
			if resp.Code != 200 {
				w.violate("C15", "auth-unavailable-offline", "auth-unavailable-offline:login", fmt.Sprintf("login during outage answered %d", resp.Code))
				return
			}
			s.absorb(resp)
			f := w.model.user(st.User)
			if f.TOTPEnabled {
				time.Sleep(2100 * time.Millisecond)
				code := w.totpCode(st.User, time.Now())
				if f.UsedTOTP[code] {
					return
				}
				r2 := w.serve(&vfReq{Method: "POST", Path: "/api/v0/TOTPAuth", Cookies: copyCookies(s.Cookies), Form: url.Values{"OTP": {code}}})
				w.probe("fromCache-totp")
				if r2.Code != 200 {
					w.violate("C15", "auth-unavailable-offline", "auth-unavailable-offline:totp", fmt.Sprintf("TOTP check during outage answered %d", r2.Code))
				} else {
					f.UsedTOTP[code] = true
				}
			}
		}
		return p
	}

	// every read of the primary times out from now on (an overloaded primary); its writes would still get through
	vfExtraOps["reads_down"] = func(w *vfWorld, st vfStep, p *vfPrepared) *vfPrepared {
		p.env = func() {
			w.fault("db.primary.reads-timeout")
			w.primary.setReadsDown(2500 * time.Millisecond)
			w.readsDownDigest = w.dbDigest()
			w.readsDown = true
		}
		return p
	}
	vfExtraOps["reads_up"] = func(w *vfWorld, st vfStep, p *vfPrepared) *vfPrepared {
		p.env = func() {
			w.primary.setReadsDown(0)
			w.readsDown = false
			time.Sleep(3 * time.Second)
			synctest.Wait()
		}
		return p
	}
	vfProfiles["C15"] = &vfProfile{
		Setup: func(w *vfWorld) {
			// while every profile read is served from the cache, nothing may be written to the primary: whatever a
			// handler writes is built on a cached (possibly stale) profile
			w.observers = append(w.observers, func(p *vfPrepared, ctx *vfReqCtx, resp *vfResp) {
				if !w.readsDown {
					return
				}
				time.Sleep(3 * time.Second)
				synctest.Wait()
				w.probe("request-while-reads-time-out")
				w.primary.setReadsDown(0)
				d := w.dbDigest()
				w.primary.setReadsDown(2500 * time.Millisecond)
				if d != w.readsDownDigest {
					w.violate("C15", "write-after-cached-read", "write-after-cached-read:"+p.step.Op,
						fmt.Sprintf("%s (answered %d) changed the primary's content while every read of the primary was timing out: it wrote what it had read from the cache", p.step.Op, resp.Code))
					w.readsDownDigest = d
				}
			})
		},
		Gen:        genStoragePlan,
		Expand:     expandStorageFaults,
		Nontrivial: func(res *vfResult) bool { return res.Probes["sync-fault-fired"] > 0 || res.Probes["mutation-while-offline"] > 0 || res.Probes["sync-completed-compared"] > 1 },
		Rule:       "seeded histories (<=14 ops) of add/change/delete profile, upsert/delete/expire signed record, clock advances and synchronisations; for every synchronisation of every history every driver-call position on the cache and on the primary is faulted with {statement error, crash+reopen} (complete enumeration per history); plus primary-outage histories with every profile-changing handler. non-trivial = a run in which an injected sync fault fired, or a mutation was attempted during an outage, or >=2 completed syncs were compared; distinct = distinct canonical event log",
	}
}

func vfProfileCanon(p *userProfile) string {
	return fmt.Sprintf("%+v|%d|%d|%v|%s|%s|%v|%v", p.BootstrapOTP, len(p.U2fAuthData), len(p.TOTPAuthData), p.UserHasRegistered2ndFactor, p.DisplayName, p.Username, canonU2F(p), canonTOTP(p))
}

func canonU2F(p *userProfile) string {
	var l []string
	for i, d := range p.U2fAuthData {
		l = append(l, fmt.Sprintf("%d:%v:%s:%d:%x", i, d.Enabled, d.Name, d.Counter, d.Registration.Raw))
	}
	sort.Strings(l)
	return strings.Join(l, ";")
}

func canonTOTP(p *userProfile) string {
	var l []string
	for i, d := range p.TOTPAuthData {
		l = append(l, fmt.Sprintf("%d:%v:%s:%x", i, d.Enabled, d.Name, d.EncryptedSecret))
	}
	sort.Strings(l)
	return strings.Join(l, ";")
}

func (w *vfWorld) doSync(st vfStep) {
	before := w.snapshot(cachedDBFilename)
	want := w.snapshot(profileDBFilename)
	target := w.cache
	if st.B == "primary" {
		target = w.primary
	}
	if st.A != "" && st.N > 0 {
		target.arm(st.A, int(st.N))
		w.fault("db.stmt." + st.A)
	} else {
		w.cache.startCounting()
		w.primary.startCounting()
	}
	err := copyDBIntoSQLite(w.state.db, w.state.cacheDB, "sqlite")
	fired := false
	if st.A != "" && st.N > 0 {
		fired, _ = target.disarm()
	} else {
		_, nc := w.cache.disarm()
		_, np := w.primary.disarm()
		w.res.SyncCalls = append(w.res.SyncCalls, [2]int{nc, np})
	}
	if fired {
		w.probe("sync-fault-fired")
	}
	if st.A == "crash" && fired {
		w.fault("db.crash")
		w.closeRaw()
		w.restartStorage()
	}
	after := w.snapshot(cachedDBFilename)
	w.logf("sync fault=%s/%s@%d fired=%v err=%v", st.A, st.B, st.N, fired, err != nil)
	if err == nil && !fired {
		w.probe("sync-completed-compared")
		if !after.equal(want) {
			k := after.diffKind(want)
			w.violate("C15", "cache-differs-after-sync", "cache-differs-after-sync:"+k,
				fmt.Sprintf("completed sync: cache=%s primary=%s", after, want))
		}
		for u := range want.Profiles {
			w.cacheSynced[u] = true
		}
		return
	}
	// failed or interrupted: previous or new content, never a mixture
	if !after.equal(before) && !after.equal(want) {
		w.violate("C15", "cache-mixture", fmt.Sprintf("cache-mixture:%s:%s", st.A, st.B),
			fmt.Sprintf("sync %s at call %d of %s (err=%v): cache=%s is neither previous=%s nor new=%s", st.A, st.N, st.B, err, after, before, want))
	}
	if err == nil && fired && !after.equal(want) {
		w.violate("C15", "sync-error-swallowed", "sync-error-swallowed:"+st.B,
			fmt.Sprintf("sync reported success although call %d failed; cache=%s primary=%s", st.N, after, want))
	}
}

var vfStorageUsers = []string{"alice", "bob", "mallory", "carol"}

func genStoragePlan(r *rand.Rand, tier string) *vfPlan {
	p := &vfPlan{Cfg: vfCfg{TOTP: true, VIP: true, BootstrapOTP: true, PwBackend: "counting",
		CertBackends: []string{"U2F", "TOTP"}, WebUIBackends: []string{"U2F", "TOTP", "password"}}}
	longAdv := true
	if chance(r, 0.5) {
		p.Cfg.SyncInterval = pick(r, []string{"5s", "30s", "5m", "15m"})
		if p.Cfg.SyncInterval == "5s" || p.Cfg.SyncInterval == "30s" {
			longAdv = false // tens of thousands of timer-driven copies would dominate the run
		}
		p.Cfg.SyncDelay = pick(r, []string{"1s", "3s", "1m"})
	}
	add := func(s vfStep) { p.Steps = append(p.Steps, s) }
	// real token data so that real gob payloads are stored
	tok := 0
	for _, u := range []string{"alice", "bob", "mallory"} {
		if chance(r, 0.7) {
			add(vfStep{Op: "setup_totp", User: u})
		}
		if chance(r, 0.6) {
			tok++
			add(vfStep{Op: "setup_u2f", User: u, Target: fmt.Sprintf("tok%d", tok)})
		}
	}
	if chance(r, 0.45) {
		// outage scenario
		ldap := chance(r, 0.35)
		if ldap {
			// passwords come from a directory; its verdicts are kept as signed records, which the cache must serve too
			p.Cfg.PwBackend, p.Cfg.LDAPServers = "ldap", 1
			for _, u := range []string{"alice", "bob", "mallory"} {
				add(vfStep{Op: "login", Sess: "pre-" + u, User: u, B: "form"})
			}
		}
		selfService := !ldap && chance(r, 0.6)
		if selfService {
			p.Cfg.SelfService, p.Cfg.Email = true, true
			add(vfStep{Op: "st_save", User: "gadmin", A: "rename", N: 1}) // an account with a profile and no second factor
		}
		add(vfStep{Op: "sync"})
		if chance(r, 0.5) {
			add(vfStep{Op: "st_save", User: pick(r, vfStorageUsers), A: "rename", N: int64(r.IntN(100))})
		}
		if chance(r, 0.25) {
			// a second-factor registration begun while the primary was fine is completed while its reads time out
			u := pick(r, []string{"alice", "bob", "mallory"})
			add(vfStep{Op: "totp_new", User: u})
			add(vfStep{Op: "sync"})
			if chance(r, 0.5) {
				add(vfStep{Op: "st_save", User: u, A: "rename", N: int64(r.IntN(100))}) // the primary moves on; the cache does not
			}
			add(vfStep{Op: "reads_down"})
			add(vfStep{Op: pick(r, []string{"totp_validate_new", "totp_validate_new", "u2f_regreq", "totp_new"}), User: u})
			if chance(r, 0.5) {
				add(vfStep{Op: "mgmt", User: u, A: pick(r, []string{"u2f", "totp"}), B: pick(r, []string{"Disable", "Delete", "Update"}), Target: "tok1"})
			}
			add(vfStep{Op: "reads_up"})
			add(vfStep{Op: "sync"})
			return p
		}
		if chance(r, 0.4) {
			// no standing outage: single requests during which a short outage ends
			for i := 0; i < 3+r.IntN(5); i++ {
				u := pick(r, []string{"alice", "bob", "mallory"})
				a := pick(r, []string{"manage_totp", "manage_u2f", "manage_u2f", "totp_new", "u2f_regreq", "add_user", "delete_user", "new_bootstrap"})
				if selfService && chance(r, 0.5) {
					u = "gadmin"
					a = "login" // a password login of a user without second factor: may mail a self-service bootstrap OTP - not from a cached profile
				}
				add(vfStep{Op: "mutate", User: u, A: a, B: pick(r, []string{"Disable", "Enable", "Delete", "Update"}), N: int64(r.IntN(12)), C: "midheal"})
			}
			add(vfStep{Op: "sync"})
			return p
		}
		add(vfStep{Op: "outage", A: pick(r, []string{"", "", "fast"})})
		if ldap {
			add(vfStep{Op: "dir_server", N: 1, A: pick(r, []string{"down", "refuse", "error"})})
		}
		n := 3 + r.IntN(6)
		for i := 0; i < n; i++ {
			u := pick(r, []string{"alice", "bob", "mallory"})
			switch r.IntN(4) {
			case 0:
				add(vfStep{Op: "offline_auth", User: u})
			default:
				a := pick(r, []string{"manage_totp", "manage_u2f", "totp_new", "u2f_regreq", "add_user", "delete_user", "new_bootstrap"})
				add(vfStep{Op: "mutate", User: u, A: a, B: pick(r, []string{"Disable", "Enable", "Delete", "Update"}), N: int64(i)})
			}
		}
		add(vfStep{Op: "outage_end"})
		add(vfStep{Op: "sync"})
		return p
	}
	n := 5 + r.IntN(9)
	for i := 0; i < n; i++ {
		u := pick(r, vfStorageUsers)
		switch x := r.IntN(100); {
		case x < 30:
			sv := vfStep{Op: "st_save", User: u, A: pick(r, []string{"", "toggle", "rename", "otp"}), N: int64(r.IntN(1000))}
			if chance(r, 0.25) {
				sv.C = fmt.Sprintf("fault:%d", 1+r.IntN(7))
			}
			add(sv)
		case x < 42:
			add(vfStep{Op: "st_delete", User: u})
		case x < 58:
			add(vfStep{Op: "st_upsert", User: u, N: int64(1 + r.IntN(2)), A: fmt.Sprintf("data-%d", r.IntN(1000)), D: pick(r, []string{"96h", "1h", "10s", "2s"})})
		case x < 66:
			add(vfStep{Op: "st_delsigned", User: u, N: int64(1 + r.IntN(2))})
		case x < 86:
			add(vfStep{Op: "sync"})
		case x < 94:
			d := pick(r, []string{"1s", "3s", "11s", "1h", "97h"})
			if !longAdv && (d == "1h" || d == "97h") {
				d = "11s"
			}
			add(vfStep{Op: "advance", D: d})
		default:
			add(vfStep{Op: "cmp_after_interval"})
		}
	}
	add(vfStep{Op: "sync"})
	return p
}

// expandStorageFaults: for every sync of the base history, every call position
// on cache and primary x {error, crash}
// did a call of the running request find the primary unreachable (the short outage really hit it)?
func (w *vfWorld) cacheReadSeen() bool {
	w.primary.mu.Lock()
	defer w.primary.mu.Unlock()
	return w.primary.downHits > 0
}

func expandStorageFaults(base *vfPlan, res *vfResult) []*vfPlan {
	var out []*vfPlan
	for _, st := range base.Steps {
		if st.Op == "outage" || st.C == "midheal" {
			return nil // outage histories are about the outage; synchronisation faults are enumerated on the others
		}
	}
	si := 0
	for i, st := range base.Steps {
		if st.Op != "sync" {
			continue
		}
		if si >= len(res.SyncCalls) {
			break
		}
		calls := res.SyncCalls[si]
		si++
		for which, n := range []int{calls[0], calls[1]} {
			for k := 1; k <= n; k++ {
				for _, kind := range []string{"error", "crash"} {
					if which == 1 && kind == "crash" {
						continue // a crash of this process is the same event whichever database call it lands on; enumerated on the cache side
					}
					d := *base
					d.Steps = append([]vfStep(nil), base.Steps...)
					d.Steps[i].A, d.Steps[i].N = kind, int64(k)
					d.Steps[i].B = []string{"cache", "primary"}[which]
					d.Variant = fmt.Sprintf("sync#%d:%s:%s@%d", si, d.Steps[i].B, kind, k)
					out = append(out, &d)
				}
			}
		}
	}
	return out
}
