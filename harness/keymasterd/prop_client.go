package main

// C19: the keymaster client never sends private keys and installs credentials
// safely.  Four parties (client, server, SSH agent, file system) in one
// bubble: the REAL client code (cmd/keymaster's setupCerts and friends linked
// as package kmcli, lib/client/twofa, sshagent, util) talks through a
// recording RoundTripper to the REAL server handlers; the agent is an
// in-memory keyring behind a pipe; the home directory is a per-run temp dir.

import (
	"bufio"
	"bytes"
	"crypto"
	"crypto/ecdsa"
	"crypto/ed25519"
	"crypto/rsa"
	"crypto/tls"
	"crypto/x509"
	"encoding/base64"
	"encoding/hex"
	"encoding/pem"
	"errors"
	"fmt"
	"io"
	"io/fs"
	"math/rand/v2"
	"net"
	"net/http"
	"net/http/cookiejar"
	"net/http/httptest"
	"os"
	"path/filepath"
	"strings"
	"syscall"
	"testing/synctest"
	"time"

	kmcli "github.com/Cloud-Foundations/keymaster/cmd/zz_vf_kmcli"
	"github.com/Cloud-Foundations/keymaster/lib/client/config"
	vfhook "github.com/Cloud-Foundations/keymaster/zz_vfhook"
	"golang.org/x/crypto/ssh"
	"golang.org/x/crypto/ssh/agent"
)

// ---- recording transport -------------------------------------------------------------

type vfClientTransport struct {
	w        *vfWorld
	wire     bytes.Buffer // every byte the client put on the wire
	requests []string
	failHost string // requests to this host fail (first target URL down)
	refused  []vfRefused
	onLogin  func()
	failAt   int // the n-th request (1-based) and every later one fail in the transport: the server vanished mid-run
}

type vfRefused struct {
	Algo string
	Text string
}

func vfOfferedAlgo(raw []byte) string {
	for _, a := range []string{"ssh-ed25519", "ssh-rsa", "ecdsa-sha2-nistp256", "ecdsa-sha2-nistp384", "ecdsa-sha2-nistp521"} {
		if bytes.Contains(raw, []byte(a+" ")) {
			return a
		}
	}
	if bytes.Contains(raw, []byte("PUBLIC KEY-----")) {
		return "x509-public-key"
	}
	return "unknown"
}

func (t *vfClientTransport) RoundTrip(req *http.Request) (*http.Response, error) {
	var raw bytes.Buffer
	if err := req.Write(&raw); err != nil {
		return nil, err
	}
	t.wire.Write(raw.Bytes())
	t.requests = append(t.requests, req.Method+" "+req.URL.Path)
	if t.failHost != "" && req.URL.Host == t.failHost {
		return nil, errors.New("sim: connection refused")
	}
	if t.failAt > 0 && len(t.requests) >= t.failAt {
		return nil, errors.New("sim: connection reset by peer")
	}
	// what the server receives is what was serialised
	sreq, err := http.ReadRequest(bufio.NewReader(bytes.NewReader(raw.Bytes())))
	if err != nil {
		return nil, err
	}
	sreq.RemoteAddr = "192.0.2.77:41000"
	sreq.TLS = &tls.ConnectionState{Version: tls.VersionTLS13, HandshakeComplete: true, ServerName: vfHost}
	sreq.RequestURI = req.URL.RequestURI()
	rec := httptest.NewRecorder()
	func() {
		defer func() {
			if p := recover(); p != nil {
				rec.Code = 500
			}
		}()
		sreq.URL.Scheme, sreq.URL.Host = "https", vfHost
		t.w.svc.ServeHTTP(rec, sreq)
	}()
	resp := rec.Result()
	resp.Request = req
	if strings.HasPrefix(req.URL.Path, "/api/v0/login") && t.onLogin != nil {
		t.onLogin()
	}
	if strings.HasPrefix(req.URL.Path, "/certgen/") && resp.StatusCode >= 400 && resp.StatusCode < 600 {
		b, _ := io.ReadAll(resp.Body)
		resp.Body = io.NopCloser(bytes.NewReader(b))
		t.refused = append(t.refused, vfRefused{Algo: vfOfferedAlgo(raw.Bytes()),
			Text: fmt.Sprintf("%s?%s (%s) -> %d %s", req.URL.Path, req.URL.RawQuery, vfOfferedAlgo(raw.Bytes()), resp.StatusCode, strings.TrimSpace(string(b)))})
	}
	return resp, nil
}

// ---- in-memory SSH agent behind a pipe ----------------------------------------------------

type vfAgent struct {
	keyring agent.Agent
	mode    string // present | absent | refuse-lifetime | refuse-all | list-error
	added   []agent.AddedKey
	foreign bool // the agent also holds an identity of an algorithm x/crypto/ssh does not know (hardware / vendor keys)
}

type vfAgentWrap struct {
	agent.Agent
	a *vfAgent
}

func (x *vfAgentWrap) Add(key agent.AddedKey) error {
	switch x.a.mode {
	case "refuse-all":
		return errors.New("agent refused operation")
	case "refuse-lifetime":
		if key.LifetimeSecs != 0 {
			return errors.New("agent refused operation")
		}
	}
	x.a.added = append(x.a.added, key)
	return x.Agent.Add(key)
}

func (x *vfAgentWrap) List() ([]*agent.Key, error) {
	if x.a.mode == "list-error" {
		return nil, errors.New("agent failure")
	}
	l, err := x.Agent.List()
	if err == nil && x.a.foreign {
		blob := ssh.Marshal(struct{ Name, Data string }{"ssh-xmss@openssh.com", "0123456789abcdef0123456789abcdef"})
		l = append([]*agent.Key{{Format: "ssh-xmss@openssh.com", Blob: blob, Comment: "vendor-key"}}, l...)
	}
	return l, err
}

// vfStrayAgent is somebody else's agent: it accepts everything and remembers what it was given.
type vfStrayAgent struct {
	agent.Agent
	added *[]agent.AddedKey
}

func (x *vfStrayAgent) Add(key agent.AddedKey) error {
	*x.added = append(*x.added, key)
	return x.Agent.Add(key)
}

func (a *vfAgent) dial() (net.Conn, error) {
	if a.mode == "absent" {
		return nil, errors.New("dial unix: connect: no such file or directory")
	}
	c, s := net.Pipe()
	go agent.ServeAgent(&vfAgentWrap{Agent: a.keyring, a: a}, s)
	return c, nil
}

// ---- the client's log stream ------------------------------------------------------------------------------

// vfCaptureLogger keeps what the client would write to its log at the configured debug level (the -logDebugLevel flag).
type vfCaptureLogger struct {
	vfNopLogger
	level int
	buf   *bytes.Buffer
}

func (l vfCaptureLogger) Debug(level uint8, v ...interface{}) {
	if int(level) <= l.level {
		fmt.Fprint(l.buf, v...)
		l.buf.WriteByte('\n')
	}
}
func (l vfCaptureLogger) Debugf(level uint8, format string, v ...interface{}) {
	if int(level) <= l.level {
		fmt.Fprintf(l.buf, format, v...)
		l.buf.WriteByte('\n')
	}
}
func (l vfCaptureLogger) Debugln(level uint8, v ...interface{}) {
	if int(level) <= l.level {
		fmt.Fprintln(l.buf, v...)
	}
}
func (l vfCaptureLogger) Print(v ...interface{})                 { fmt.Fprint(l.buf, v...); l.buf.WriteByte('\n') }
func (l vfCaptureLogger) Printf(format string, v ...interface{}) { fmt.Fprintf(l.buf, format, v...); l.buf.WriteByte('\n') }
func (l vfCaptureLogger) Println(v ...interface{})               { fmt.Fprintln(l.buf, v...) }

// how fmt prints a byte slice with %v / %+v: decimal numbers separated by spaces
func vfDecimalList(b []byte) string {
	var sb strings.Builder
	for i, x := range b {
		if i > 0 {
			sb.WriteByte(' ')
		}
		fmt.Fprintf(&sb, "%d", x)
	}
	return sb.String()
}

// ---- the client's disk ------------------------------------------------------------------------------

// vfSimDisk passes the client's writes to the real file system, except that the failAt-th write operation finds
// the disk full: half of the data is written, the rest is refused with ENOSPC.
type vfSimDisk struct {
	w      *vfWorld
	failAt int
	ops    int
	fired  bool
}

func (d *vfSimDisk) full() bool {
	d.ops++
	if d.failAt > 0 && d.ops == d.failAt {
		d.fired = true
		d.w.fault("disk.full")
		return true
	}
	return false
}

func (d *vfSimDisk) WriteFile(name string, data []byte, perm os.FileMode) error {
	if !d.full() {
		return os.WriteFile(name, data, perm)
	}
	f, err := os.OpenFile(name, os.O_WRONLY|os.O_CREATE|os.O_TRUNC, perm)
	if err != nil {
		return err
	}
	f.Write(data[:len(data)/2])
	f.Close()
	return &os.PathError{Op: "write", Path: name, Err: syscall.ENOSPC}
}

func (d *vfSimDisk) Create(name string) (vfhook.ClientFile, error) {
	f, err := os.Create(name)
	if err != nil {
		return nil, err
	}
	return &vfSimFile{File: f, d: d}, nil
}

func (d *vfSimDisk) Chmod(name string, mode os.FileMode) error { return os.Chmod(name, mode) }

type vfSimFile struct {
	*os.File
	d *vfSimDisk
}

func (f *vfSimFile) Write(b []byte) (int, error) {
	if !f.d.full() {
		return f.File.Write(b)
	}
	n, _ := f.File.Write(b[:len(b)/2])
	return n, &os.PathError{Op: "write", Path: f.File.Name(), Err: syscall.ENOSPC}
}

func (f *vfSimFile) WriteString(s string) (int, error) { return f.Write([]byte(s)) }

// ---- private key encodings --------------------------------------------------------------

func vfPrivateNeedles(k crypto.PrivateKey) map[string][]byte {
	out := map[string][]byte{}
	add := func(name string, b []byte) {
		if len(b) >= 16 {
			out[name] = b
		}
	}
	if der, err := x509.MarshalPKCS8PrivateKey(k); err == nil {
		add("pkcs8", der)
	}
	switch p := k.(type) {
	case *rsa.PrivateKey:
		add("pkcs1", x509.MarshalPKCS1PrivateKey(p))
		add("rsa-d", p.D.Bytes())
		for i, pr := range p.Primes {
			add(fmt.Sprintf("rsa-prime%d", i), pr.Bytes())
		}
	case *ecdsa.PrivateKey:
		if der, err := x509.MarshalECPrivateKey(p); err == nil {
			add("sec1", der)
		}
		add("ec-d", p.D.Bytes())
	case ed25519.PrivateKey:
		add("ed25519-seed", p.Seed())
		add("ed25519-private", []byte(p))
	case *ed25519.PrivateKey:
		add("ed25519-seed", p.Seed())
		add("ed25519-private", []byte(*p))
	}
	if blk, err := ssh.MarshalPrivateKey(k, ""); err == nil {
		// the random check-ints differ per encoding; the key fields inside do not: cover them through the raw parts above
		_ = blk
	}
	return out
}

func vfWireContains(wire []byte, needle []byte) string {
	if bytes.Contains(wire, needle) {
		return "raw"
	}
	h := hex.EncodeToString(needle)
	if bytes.Contains(wire, []byte(h)) || bytes.Contains(wire, []byte(strings.ToUpper(h))) {
		return "hex"
	}
	// base64: the needle may sit at any offset inside a longer encoded structure (an SSH key blob, a DER
	// document), so for each of the three alignments take the characters that depend on the needle alone
	for name, enc := range map[string]*base64.Encoding{"base64": base64.RawStdEncoding, "base64url": base64.RawURLEncoding} {
		for k := 0; k < 3; k++ {
			e := enc.EncodeToString(append(make([]byte, k), needle...))
			lo := 0
			if k > 0 {
				lo = 2 // the first two characters also encode the k bytes in front
				if k == 2 {
					lo = 3
				}
			}
			hi := len(e) - 2 // the last characters also encode what follows
			if hi-lo >= 20 && bytes.Contains(wire, []byte(e[lo:hi])) {
				return fmt.Sprintf("%s(offset %d)", name, k)
			}
		}
	}
	return ""
}

func init() {
	// one complete client run: A: key preference (rsa|p256|p384); B: agent mode; C: "firstdown" = first target URL fails; N: number of consecutive runs
	vfExtraOps["client_run"] = func(w *vfWorld, st vfStep, p *vfPrepared) *vfPrepared {
		p.env = func() { w.clientRun(st) }
		return p
	}
	vfProfiles["C19"] = &vfProfile{
		Gen:        genClientPlan,
		Nontrivial: func(res *vfResult) bool { return res.Probes["client-run-completed"] > 0 },
		Rule:       "the real client (setupCerts of cmd/keymaster, lib/client/twofa, sshagent, util) is run against the real server handlers for key preference rsa / p256 / p384 x second-factor path (password only, TOTP code, VIP code typed at the prompt) x agent present / absent / refusing lifetimes / refusing everything / failing to list x first target URL failing, once or twice in a row with the same home directory and agent; the recording transport keeps every byte the client sends. non-trivial = at least one client run completed; distinct = distinct canonical event log",
	}
}

func (w *vfWorld) clientRun(st vfStep) {
	user := st.User
	if user == "" {
		user = "alice"
	}
	home := filepath.Join(w.dir, "home-"+user)
	os.MkdirAll(home, 0o755)
	if w.agentSim == nil {
		w.agentSim = &vfAgent{keyring: agent.NewKeyring()}
	}
	w.agentSim.mode = st.B
	if st.B == "" {
		w.agentSim.mode = "present"
	}
	w.agentSim.foreign = st.Target == "foreign"
	// the user's designated agent is the one SSH_AUTH_SOCK names; the real connectToDefaultSSHAgentLocation runs,
	// its net.Dial lands here
	const designated = "/vf-sim/run/user/1000/ssh-agent.sock"
	if w.agentSim.mode == "absent" {
		os.Unsetenv("SSH_AUTH_SOCK")
	} else {
		os.Setenv("SSH_AUTH_SOCK", designated)
	}
	strayPath := ""
	var strayAdded []agent.AddedKey
	if containsStr(st.L, "stray-agent") {
		// some other process's agent socket lies in the temporary directory (the naming ssh-agent itself uses)
		d := filepath.Join(os.TempDir(), "ssh-vfXXstray")
		os.MkdirAll(d, 0o700)
		strayPath = filepath.Join(d, "agent.4242")
		os.WriteFile(strayPath, nil, 0o600)
		defer os.RemoveAll(d)
		w.fault("client.stray-agent-socket")
	}
	vfhook.ClientDialFn = func(network, addr string) (net.Conn, error) {
		switch {
		case network == "unix" && addr == designated && w.agentSim.mode != "absent":
			return w.agentSim.dial()
		case network == "unix" && strayPath != "" && addr == strayPath:
			w.probe("client-dialled-stray-agent")
			c, srv := net.Pipe()
			go agent.ServeAgent(&vfStrayAgent{Agent: agent.NewKeyring(), added: &strayAdded}, srv)
			return c, nil
		}
		return nil, fmt.Errorf("dial %s %s: connect: no such file or directory", network, addr)
	}
	defer func() {
		vfhook.ClientDialFn = nil
		os.Unsetenv("SSH_AUTH_SOCK")
		if len(strayAdded) > 0 {
			w.violate("C19", "key-to-undesignated-agent", "key-to-undesignated-agent", fmt.Sprintf("%d private key(s) were handed to an agent socket (%s) that SSH_AUTH_SOCK does not name", len(strayAdded), strings.TrimPrefix(strayPath, os.TempDir())))
		}
	}()

	// the terminal: a regular file standing in for stdin (never blocks); the harness puts the next answer there
	stdinPath := filepath.Join(w.dir, "stdin")
	setStdin := func(line string) {
		os.WriteFile(stdinPath, []byte(line+"\n"), 0o600)
		f, err := os.Open(stdinPath)
		if err == nil {
			if w.stdinFile != nil {
				w.stdinFile.Close()
			}
			w.stdinFile = f
			os.Stdin = f
		}
	}
	oldStdin, oldStdout := os.Stdin, os.Stdout
	devnull, _ := os.OpenFile(os.DevNull, os.O_WRONLY, 0)
	os.Stdout = devnull
	defer func() { os.Stdin, os.Stdout = oldStdin, oldStdout; devnull.Close() }()
	setStdin(w.dirsim.Password[user])

	tr := &vfClientTransport{w: w}
	tr.onLogin = func() {
		// the next prompt (if any) asks for a one-time code
		f := w.model.user(user)
		switch {
		case f.TOTPEnabled && containsStr(w.cfg.CertBackends, "TOTP"):
			time.Sleep(2100 * time.Millisecond)
			setStdin(w.totpCode(user, time.Now()))
		case containsStr(w.cfg.CertBackends, "SymantecVIP"):
			setStdin(fmt.Sprintf("%06d", vfVipCode(user, time.Now())))
		default:
			setStdin("")
		}
	}
	urls := "https://" + vfHost
	if st.C == "firstdown" {
		tr.failHost = "down.keymaster.sim"
		urls = "https://down.keymaster.sim,https://" + vfHost
		w.fault("server.unavailable")
	}
	if strings.HasPrefix(st.C, "failat:") {
		fmt.Sscanf(st.C, "failat:%d", &tr.failAt)
		w.fault("net.reset")
	}
	jar, _ := cookiejar.New(nil)
	client := &http.Client{Transport: tr, Jar: jar}
	cfg := config.AppConfigFile{Base: config.BaseConfig{Gen_Cert_URLS: urls, PreferredKeyType: st.A, FilePrefix: "keymaster"}}
	if st.B != "present" && st.B != "" {
		w.fault("agent." + st.B)
	}
	runs := int(st.N)
	if runs < 1 {
		runs = 1
	}
	disk := &vfSimDisk{w: w}
	for _, o := range st.L {
		if strings.HasPrefix(o, "diskfull:") {
			fmt.Sscanf(o, "diskfull:%d", &disk.failAt) // the k-th file write of the first run finds the disk full
		}
	}
	vfhook.ClientDisk = disk
	defer func() { vfhook.ClientDisk = nil }()
	clog := vfCaptureLogger{level: -1, buf: &bytes.Buffer{}}
	for _, o := range st.L {
		if strings.HasPrefix(o, "loglevel:") {
			fmt.Sscanf(o, "loglevel:%d", &clog.level) // the operator runs the client with -logDebugLevel N
		}
	}
	w.clientLog = clog.buf
	origIdentity := w.state.HostIdentity
	defer func() { w.state.HostIdentity = origIdentity }()
	for i := 0; i < runs; i++ {
		if i > 0 && containsStr(st.L, "replica") {
			// fail-over: this run is served by another replica of the deployment (same keys and data, its own host identity)
			w.state.HostIdentity = "keymaster-replica2.sim"
			w.fault("server.failover")
		}
		before := len(w.agentSim.added)
		done := make(chan error, 1)
		go func() {
			defer func() {
				if p := recover(); p != nil {
					done <- fmt.Errorf("client exited: %v", p) // logger.Fatal: the client process ends here
				}
			}()
			done <- kmcli.VfSetupCerts(user, home, cfg, client, clog)
		}()
		var err error
		select {
		case err = <-done:
		case <-time.After(10 * time.Minute):
			err = errors.New("client run did not finish within 10 simulated minutes")
		}
		synctest.Wait()
		w.logf("client_run user=%s pref=%s agent=%s -> err=%v requests=%d", user, st.A, w.agentSim.mode, err != nil, len(tr.requests))
		if err == nil {
			w.probe("client-run-completed")
		} else {
			w.probe("client-run-failed")
			w.logf("client error: %s", strings.ReplaceAll(err.Error(), w.dir, "$RUN")) // (the run directory differs per process: keep the log a function of the seed)
		}
		w.clientOracles(st, user, home, tr, before, err)
		tr.failAt = 0
		disk.failAt = 0
		if i+1 < runs {
			time.Sleep(31 * time.Second) // a fresh TOTP period for the second run
			setStdin(w.dirsim.Password[user])
		}
	}
}

func containsStr(l []string, s string) bool {
	for _, x := range l {
		if x == s {
			return true
		}
	}
	return false
}

func (w *vfWorld) clientOracles(st vfStep, user, home string, tr *vfClientTransport, addedBefore int, runErr error) {
	// (1) every private key the client generated, wherever it legitimately went
	var privs []crypto.PrivateKey
	for _, k := range w.agentSim.added {
		privs = append(privs, k.PrivateKey)
	}
	filepath.WalkDir(home, func(path string, d fs.DirEntry, err error) error {
		if err != nil || d.IsDir() {
			if err == nil && d.IsDir() && path != home {
				if info, e := d.Info(); e == nil && info.Mode().Perm()&0o077 != 0 {
					w.violate("C19", "key-file-mode", "key-dir-mode", fmt.Sprintf("directory %s has mode %o", strings.TrimPrefix(path, home), info.Mode().Perm()))
				}
			}
			return nil
		}
		data, err := os.ReadFile(path)
		if err != nil {
			return nil
		}
		info, _ := d.Info()
		isPriv := bytes.Contains(data, []byte("PRIVATE KEY-----")) // also a file that holds only part of one
		for rest := data; ; {
			var blk *pem.Block
			blk, rest = pem.Decode(rest)
			if blk == nil {
				break
			}
			if strings.Contains(blk.Type, "PRIVATE KEY") {
				isPriv = true
				if k, err := x509.ParsePKCS8PrivateKey(blk.Bytes); err == nil {
					privs = append(privs, k)
				} else if k, err := ssh.ParseRawPrivateKey(pem.EncodeToMemory(blk)); err == nil {
					privs = append(privs, k)
				}
			}
		}
		if isPriv && info != nil && info.Mode().Perm()&0o077 != 0 {
			w.violate("C19", "key-file-mode", "key-file-mode", fmt.Sprintf("private key file %s has mode %o", strings.TrimPrefix(path, home), info.Mode().Perm()))
		}
		return nil
	})
	w.res.Probes["client-private-keys-seen"] += len(privs)
	wire := tr.wire.Bytes()
	for _, k := range privs {
		for name, needle := range vfPrivateNeedles(k) {
			if how := vfWireContains(wire, needle); how != "" {
				w.violate("C19", "private-key-on-wire", "private-key-on-wire:"+name, fmt.Sprintf("the client sent private key material (%s, %s encoding) to the server", name, how))
			}
		}
	}
	if w.clientLog != nil && w.clientLog.Len() > 0 {
		// "private keys reach only the local SSH agent or files readable solely by the user": not the log stream either
		logText := w.clientLog.Bytes()
		for _, k := range privs {
			for name, needle := range vfPrivateNeedles(k) {
				how := vfWireContains(logText, needle)
				if how == "" && bytes.Contains(logText, []byte(vfDecimalList(needle))) {
					how = "decimal list (fmt %v of a byte slice)"
				}
				if how != "" {
					w.violate("C19", "private-key-in-log", "private-key-in-log:"+name, fmt.Sprintf("the client wrote private key material (%s, %s) to its log", name, how))
				}
			}
		}
		w.res.Probes["client-log-bytes"] += len(logText)
	}
	w.res.Probes["client-wire-bytes"] += len(wire)
	// (2) the agent holds exactly one certificate per label
	// (the keyring itself is asked, not the agent's protocol face: whatever the agent refuses or fails to list in this
	// run, what it holds must not contain duplicates)
	{
		mustHold := w.agentSim.mode == "present" || w.agentSim.mode == "refuse-lifetime"
		if keys, err := w.agentSim.keyring.List(); err == nil {
			seen := map[string]int{}
			slotLabels := map[string][]string{}
			slots := map[string]int{} // one live certificate per user and key type, whatever it is labelled
			for _, k := range keys {
				if strings.Contains(k.Format, "cert") {
					seen[k.Comment]++
					if pk, err := ssh.ParsePublicKey(k.Blob); err == nil {
						if c, ok := pk.(*ssh.Certificate); ok && len(c.ValidPrincipals) == 1 && m_pubSSH(w, c) {
							fam := c.Key.Type() // labels carry the key type: one live certificate per user and key type
							slots[c.ValidPrincipals[0]+"/"+fam]++
							slotLabels[c.ValidPrincipals[0]+"/"+fam] = append(slotLabels[c.ValidPrincipals[0]+"/"+fam], fmt.Sprintf("%q(%s)", k.Comment, c.Key.Type()))
						}
					}
				}
			}
			for sl, n := range slots {
				if n > 1 {
					w.violate("C19", "duplicate-in-agent", "duplicate-in-agent:stale-certificate", fmt.Sprintf("the agent holds %d keymaster certificates for %s: an earlier one was not replaced (labels %v)", n, sl, slotLabels[sl]))
				}
			}
			for c, n := range seen {
				if n > 1 {
					w.violate("C19", "duplicate-in-agent", "duplicate-in-agent", fmt.Sprintf("the agent holds %d certificates with label %q", n, c))
				}
			}
			if mustHold && runErr == nil && len(seen) == 0 {
				w.violate("C19", "not-installed", "not-installed:agent", "the client run succeeded but no certificate reached the agent")
			}
		}
	}
	// (3) every key type the client offers by design is one the server certifies
	for _, r := range tr.refused {
		if r.Algo == "ssh-ed25519" && !w.cfg.Ed25519CA {
			// a server without an Ed25519 CA certifies no Ed25519 keys at all; the client asks anyway and treats the answer as "not available"
			w.probe("client-ed25519-not-available")
			continue
		}
		w.violate("C19", "offered-key-refused", "offered-key-refused:"+st.A+":"+r.Algo, fmt.Sprintf("with key preference %q the server (Ed25519 CA configured: %v) refused a key the client offers: %s", st.A, w.cfg.Ed25519CA, r.Text))
	}
	tr.refused = nil
	w.cell(fmt.Sprintf("C19|pref=%s|agent=%s|backends=%s|ed25519ca=%v|fault=%s|ok=%v", st.A, w.agentSim.mode, strings.Join(w.cfg.CertBackends, "+"), w.cfg.Ed25519CA, st.C, runErr == nil))
}

// is the certificate signed by one of this deployment's published SSH CA keys?
func m_pubSSH(w *vfWorld, c *ssh.Certificate) bool {
	if len(w.model.pubSSH) == 0 {
		w.model.refreshPublished()
	}
	return w.model.pubSSH[string(c.SignatureKey.Marshal())]
}

func genClientPlan(r *rand.Rand, tier string) *vfPlan {
	backends := pick(r, [][]string{{"password"}, {"password", "U2F"}, {"TOTP"}, {"SymantecVIP"}, {"TOTP", "U2F"}})
	p := &vfPlan{Cfg: vfCfg{TOTP: true, VIP: true, PwBackend: "counting", CertBackends: backends, WebUIBackends: []string{"U2F", "password"},
		Ed25519CA: chance(r, 0.6), GroupsLDAP: chance(r, 0.3)}}
	if chance(r, 0.25) && !containsStr(backends, "TOTP") {
		p.Cfg.CAKey = "ecdsa" // a deployment whose primary CA key is ECDSA (local TOTP needs an RSA key to keep its secrets: not combined)
	}
	add := func(s vfStep) { p.Steps = append(p.Steps, s) }
	user := pick(r, []string{"alice", "bob"})
	if containsStr(backends, "TOTP") {
		add(vfStep{Op: "setup_totp", User: user})
		add(vfStep{Op: "advance", D: "31s"})
	}
	add(vfStep{Op: "client_run", User: user, A: pick(r, []string{"rsa", "p256", "p384"}),
		B: pick(r, []string{"present", "present", "absent", "refuse-lifetime", "refuse-all", "list-error"}),
		C: pick(r, []string{"", "", "", "firstdown", fmt.Sprintf("failat:%d", 1+r.IntN(8))}), N: int64(1 + r.IntN(2)),
		Target: pick(r, []string{"", "", "foreign"}), L: pick(r, [][]string{nil, nil, {"replica"}, {fmt.Sprintf("diskfull:%d", 1+r.IntN(7))}, {fmt.Sprintf("loglevel:%d", pick(r, []int{1, 3, 5, 10}))}, {"stray-agent"}})})
	if chance(r, 0.3) {
		add(vfStep{Op: "advance", D: pick(r, []string{"31s", "1h"})})
		kt := pick(r, []string{"rsa", "p256", "p384"})
		if chance(r, 0.6) {
			kt = p.Steps[len(p.Steps)-2].A // the same kind of key as before: the earlier certificate has to make room
		}
		add(vfStep{Op: "client_run", User: user, A: kt, B: pick(r, []string{"present", "absent", "refuse-all", "list-error", "list-error"}), N: 1, Target: pick(r, []string{"", "foreign"}), L: pick(r, [][]string{nil, nil, {"stray-agent"}})})
	}
	return p
}
