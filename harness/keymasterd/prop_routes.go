package main

// C06: no protected effect without a valid credential the endpoint accepts.
// Every route registered in main() of the CURRENT tree (the route table is
// generated from the source at check time) is probed with credential shapes
// the endpoint must not accept; effects are observed where only the simulator
// can see them: SQL statements reaching the primary, backend transactions,
// signed bytes leaving.

import (
	"fmt"
	"math/rand/v2"
	"net/netip"
	"net/url"
	"strings"
	"time"
)

// protection classes (written from the documentation and the property text,
// not derived from the code)
const (
	rcPublic  = "public"
	rcLogin   = "login"
	rcAnySess = "any-session"  // any live session of the acting user, keymaster/IP certificate, or the password itself
	rcWebUI   = "webui"        // session at web-UI level only
	rcAdmin   = "admin"        // administrator: web-UI-level session or keymaster client certificate
	rcCertgen = "certgen"      // C01 rule
	rcIPCert  = "ipcert"       // IP-restricted certificate from inside its netblocks
	rcToken   = "own-token"    // the endpoint's own token scheme
	rcAdmPort = "admin-port"
)

var vfRouteClass = map[string]string{
	"/": rcPublic, "/public/": rcPublic, "/static/": rcPublic, "/static/compiled/": rcPublic, "/custom_static/": rcPublic,
	"/.well-known/openid-configuration": rcPublic, "/idp/oauth2/jwks": rcPublic, "/api/v0/logout": rcPublic,
	"/auth/oauth2/login": rcPublic, "/auth/oauth2/callback": rcPublic, "/public/clientConfig": rcPublic,
	"/api/v0/login": rcLogin,
	"/u2f/SignRequest": rcAnySess, "/u2f/SignResponse": rcAnySess, "/webauthn/AuthBegin/": rcAnySess, "/webauthn/AuthFinish/": rcAnySess,
	"/api/v0/vipAuth": rcAnySess, "/api/v0/vipPushStart": rcAnySess, "/api/v0/vipPollCheck": rcAnySess, "/api/v0/TOTPAuth": rcAnySess,
	"/api/v0/bootstrapOtpAuth": rcAnySess, "/api/v0/okta2FAAuth": rcAnySess, "/api/v0/oktaPushStart": rcAnySess, "/api/v0/oktaPollCheck": rcAnySess,
	"/profile/": rcWebUI, "/api/v0/manageU2FToken": rcWebUI, "/api/v0/manageTOTPToken": rcWebUI, "/u2f/RegisterRequest/": rcWebUI, "/u2f/RegisterResponse/": rcWebUI,
	"/webauthn/RegisterRequest/": rcWebUI, "/webauthn/RegisterFinish/": rcWebUI, "/totp/GenerateNew/": rcWebUI, "/totp/ValidateNew/": rcWebUI,
	"/api/v0/VerifyTOTP": rcWebUI, "/idp/oauth2/authorize": rcWebUI, "/showAuthToken": rcWebUI, "/sendAuthDocument": rcWebUI,
	"/users/": rcAdmin, "/admin/addUser": rcAdmin, "/admin/deleteUser": rcAdmin, "/admin/newBoostrapOTP": rcAdmin, "/v1/getRoleRequestingCert": rcAdmin,
	"/certgen/": rcCertgen,
	"/v1/refreshRoleRequestingCert": rcIPCert,
	"/idp/oauth2/token": rcToken, "/idp/oauth2/userinfo": rcToken, "/verifyAuthToken": rcToken, "/aws/requestRoleCertificate/v1": rcToken,
}

// is the credential shape one the class accepts?
func vfShapeAcceptable(class, shape string, webuiHasPassword bool) (bool, bool) {
	switch shape {
	case "none", "basic-wrong", "basic-old", "expired-cookie", "forged-cookie", "wrongkind-cookie", "ipcert-outside", "ipcert-outside-fwd", "denied-key-cert", "foreign-cert":
		return false, true
	case "lowlevel-cookie": // an authentic session below the web-UI level
		switch class {
		case rcAnySess, rcCertgen:
			return true, true
		}
		return false, true
	case "usercert": // keymaster-issued client certificate alone
		switch class {
		case rcAnySess, rcCertgen, rcAdmin:
			return true, true
		}
		return false, true
	case "csrf": // valid web-UI-level cookie, state-changing method, other site's Origin/Referer
		return false, true
	}
	return true, false
}

type vfProbe struct {
	Route, Class, Shape, Method, Origin string
	Before                              *vfRows
}

func init() {
	// N: route index; A: method; B: credential shape; C: origin variant
	vfExtraOps["probe"] = func(w *vfWorld, st vfStep, p *vfPrepared) *vfPrepared {
		routes := w.svcPatterns
		if len(routes) == 0 {
			return nil
		}
		pat := routes[int(st.N)%len(routes)]
		class, known := vfRouteClass[pat]
		if !known {
			w.cell("C06|unclassified-route|" + pat)
			class = "unclassified"
		}
		path := pat
		if strings.HasSuffix(pat, "/") && pat != "/" {
			switch pat {
			case "/certgen/", "/profile/", "/u2f/RegisterRequest/", "/u2f/RegisterResponse/", "/webauthn/RegisterRequest/", "/webauthn/RegisterFinish/":
				path = pat + "alice"
			case "/public/":
				path = pat + pick2(int(st.N), "x509ca", "sshca", "loginForm")
			}
		}
		method := st.A
		if method == "" {
			method = "POST"
		}
		// parameters that would perform the route's action on alice (also in the query, for bodiless methods)
		f := w.model.user("alice")
		var tokIdx int64
		for _, t := range f.U2FTokens {
			tokIdx = t.Index
		}
		params := url.Values{"username": {"alice"}, "user": {"alice"}, "password": {"not-the-password"}, "OTP": {"123456"}, "index": {fmt.Sprint(tokIdx)},
			"action": {"Delete"}, "name": {"x"}, "identity": {"auto1"}, "requestor_netblock": {"0.0.0.0/0"}, "target_netblock": {"0.0.0.0/0"},
			"pubkey": {b64raw(vfKey("user_p256_1").pkixDER())}, "port": {"4000"}, "response_type": {"code"}, "client_id": {"clientA"}, "scope": {"openid"},
			"redirect_uri": {"https://a.example.com/cb"}, "grant_type": {"authorization_code"}, "duration": {"1h"}}
		if a := w.art("last:clitoken"); a != nil && st.N%3 != 0 {
			params.Set("token", a.Value) // a CLI web-auth token the user legitimately holds
		}
		if strings.Contains(path, "TOTP") || strings.Contains(path, "totp") {
			params.Set("index", fmt.Sprint(f.TOTPIndex))
		}
		r := &vfReq{Method: method, Path: path + "?" + params.Encode(), Header: map[string]string{}, Cookies: map[string]string{}}
		if method == "POST" || method == "PUT" {
			if pat == "/certgen/" {
				r.Multi = map[string]string{"@pubkeyfile": vfKey("user_p256_1").sshPub(), "duration": "1h"}
			} else {
				r.Form = params
			}
		}
		need := 0
		for _, b := range w.cfg.WebUIBackends {
			need |= vfCertBackendBits[b]
		}
		mint := func(level int, life time.Duration) string {
			v, _ := w.state.genNewSerializedAuthJWT("alice", level, int64(life/time.Second))
			return v
		}
		switch st.B {
		case "none":
		case "basic-wrong":
			r.Basic = &[2]string{"alice", "guess"}
		case "basic-old":
			// the password the directory accepted before the user changed it (the directory is up and now rejects it)
			old := w.oldPassword["alice"]
			if old == "" || w.cfg.PwBackend != "ldap" {
				return nil
			}
			r.Basic = &[2]string{"alice", old}
		case "expired-cookie":
			if w.expiredCookie == "" {
				return nil
			}
			r.Cookies[authCookieName] = w.expiredCookie
		case "forged-cookie":
			r.Cookies[authCookieName] = vfResignJWT(mint(AuthTypeU2F|AuthTypePassword|need, time.Hour), "ca_rsa_alt", nil)
		case "wrongkind-cookie":
			tok, _ := w.state.generateAuthJWT("alice") // a CLI web-auth token used as a session cookie
			r.Cookies[authCookieName] = tok
			if st.N%2 == 1 {
				if c := w.art("last:code"); c != nil {
					r.Cookies[authCookieName] = c.Value
				}
			}
		case "lowlevel-cookie":
			low := AuthTypePassword
			if need&AuthTypePassword != 0 {
				low = AuthTypeKeymasterX509 // a bit that is not a web-UI level
			}
			r.Cookies[authCookieName] = mint(low, time.Hour)
		case "usercert":
			a := w.art("last:usercert:alice")
			if a == nil {
				return nil
			}
			r.Cert = a.Cert
		case "denied-key-cert":
			a := w.art("last:usercert:mallory")
			if a == nil || !containsStr(w.cfg.DenyKeys, a.KeyName) {
				return nil
			}
			r.Cert = a.Cert
		case "foreign-cert":
			r.Cert = vfCertFixture("foreignCA.pem")
		case "ipcert-outside":
			a := w.art("last:ipcert")
			if a == nil {
				return nil
			}
			r.Cert = a.Cert
			r.Peer = "203.0.113.77"
			if len(a.Nets) > 0 && st.N%3 != 0 {
				// the adjacent block of the same size: as close to the netblock as an outside address can be
				if pf, err := netip.ParsePrefix(a.Nets[0]); err == nil && pf.Bits() > 0 && pf.Bits() <= 32 {
					b := pf.Masked().Addr().As4()
					v := uint32(b[0])<<24 | uint32(b[1])<<16 | uint32(b[2])<<8 | uint32(b[3])
					v ^= 1 << uint(32-pf.Bits())
					v |= uint32(st.N) & (1<<uint(32-pf.Bits()) - 1)
					r.Peer = netip.AddrFrom4([4]byte{byte(v >> 24), byte(v >> 16), byte(v >> 8), byte(v)}).String()
				}
			}
		case "ipcert-outside-fwd":
			// from the local host (outside the netblocks), with forwarding headers naming an address inside them
			a := w.art("last:ipcert")
			if a == nil || len(a.Nets) == 0 {
				return nil
			}
			pf, err := netip.ParsePrefix(a.Nets[0])
			if err != nil || pf.Contains(netip.MustParseAddr("127.0.0.1")) {
				return nil
			}
			r.Cert = a.Cert
			r.Peer = "127.0.0.1"
			inside := pf.Masked().Addr().Next().String()
			r.Header["X-Forwarded-For"] = inside
			r.Header["X-Real-Ip"] = inside
		case "csrf":
			r.Cookies[authCookieName] = mint(AuthTypeU2F|AuthTypePassword|need, time.Hour)
			switch st.C {
			case "referer":
				r.Header["Referer"] = "https://evil.example.net/page"
			case "lookalike":
				r.Header["Origin"] = "https://keymaster.sim.evil.example.net"
			case "port":
				r.Header["Origin"] = "https://keymaster.sim:8443"
			case "null":
				r.Header["Origin"] = "null" // what a browser sends from a sandboxed frame or a no-referrer page
			default:
				r.Header["Origin"] = "https://evil.example.net"
			}
			if method == "GET" {
				return nil
			}
		default:
			return nil
		}
		if st.B != "csrf" && st.C == "samesite" {
			r.Header["Origin"] = "https://" + vfHost
		}
		p.call = w.prepare(r)
		p.intent.Op = "probe"
		p.intent.Probe = &vfProbe{Route: pat, Class: class, Shape: st.B, Method: method, Origin: st.C, Before: w.snapshot(profileDBFilename)}
		return p
	}
	// a session cookie of alice that has expired by the time it is used
	vfExtraOps["expire_cookie"] = func(w *vfWorld, st vfStep, p *vfPrepared) *vfPrepared {
		p.env = func() {
			v, err := w.state.genNewSerializedAuthJWT("alice", AuthTypeU2F|AuthTypePassword|AuthTypeTOTP|AuthTypeSymantecVIP, 1)
			if err == nil {
				w.expiredCookie = v
			}
			time.Sleep(2500 * time.Millisecond)
			w.fault("clock.advance")
		}
		return p
	}
	// the password helper program's fate: A: ok | kill (dies from a signal) | exit3
	vfExtraOps["helper_mode"] = func(w *vfWorld, st vfStep, p *vfPrepared) *vfPrepared {
		p.env = func() {
			w.writeHelperCtl(st.A)
			if st.A != "ok" {
				w.fault("pwhelper." + st.A)
			}
		}
		return p
	}
	vfProfiles["C06"] = &vfProfile{
		Gen:        genRoutePlan,
		Nontrivial: func(res *vfResult) bool { return res.Probes["probes-judged"] >= 5 },
		Rule:       "for every route registered on the service multiplexer of the current tree (route table generated from main() at check time): credential shapes {none, wrong basic-auth, expired cookie, cookie re-signed with a foreign key, other-kind token as cookie, authentic cookie below the web-UI level, keymaster client certificate alone (verified leaf->CA chain), certificate of a deny-listed key, certificate of an untrusted CA, IP-restricted certificate from outside its netblocks (also from the local host with forwarding headers naming an inside address), valid cookie with another site's Origin/Referer} x methods GET/POST/PUT/DELETE/HEAD/OPTIONS x parameters that would perform the route's action on another user; effects observed at the seams (primary-store rows before/after, second-factor backend transactions, signed material or session cookies in the response, the victim's token names in the body). non-trivial = at least 5 probes judged in the run; distinct = distinct canonical event log",
		Setup:      routeSetup,
	}
}

func pick2(i int, l ...string) string { return l[i%len(l)] }

const vfSecretTokenName = "alices-private-token-name"

func routeSetup(w *vfWorld) {
	// "whenever a request is admitted, the identity and level it is admitted with were really established by the
	// credential presented": the session monitor's findings about a re-issued session seen through C06's eyes
	w.observers = append(w.observers, func(p *vfPrepared, ctx *vfReqCtx, resp *vfResp) {
		for _, v := range w.res.Violations {
			if v.Prop == "C05" && v.Step == w.stepIdx && (v.Class == "level-for-other-user" || v.Class == "subject-changed" || v.Class == "level-not-proven") {
				w.violate("C06", "identity-not-established", "identity-not-established:"+v.Class+":"+p.step.Op, v.Detail)
			}
		}
	})
	w.observers = append(w.observers, func(p *vfPrepared, ctx *vfReqCtx, resp *vfResp) {
		pr := p.intent.Probe
		if pr == nil {
			return
		}
		webuiPw := false
		for _, b := range w.cfg.WebUIBackends {
			if b == "password" {
				webuiPw = true
			}
		}
		acceptable, judged := vfShapeAcceptable(pr.Class, pr.Shape, webuiPw)
		w.cell(fmt.Sprintf("C06|%s|%s|%s|%s|%d", pr.Route, pr.Shape, pr.Method, pr.Origin, resp.Code/100))
		if pr.Class == "unclassified" || pr.Class == rcPublic || !judged || acceptable {
			return
		}
		if pr.Class == rcLogin || pr.Class == rcToken {
			// these endpoints take their own credential (password / token) from the parameters: the probes carry wrong ones
		}
		w.probe("probes-judged")
		key := fmt.Sprintf("%s:%s", pr.Route, pr.Shape)
		cls := "effect-without-credential"
		if pr.Shape == "csrf" {
			cls = "csrf-effect"
			key = fmt.Sprintf("%s:%s", pr.Route, pr.Method)
		}
		if k := w.signedIn(resp); k != "" && !(pr.Class == rcLogin && false) {
			w.violate("C06", cls, cls+":signed:"+key, fmt.Sprintf("%s %s with credential shape %q returned %s (status %d)", pr.Method, pr.Route, pr.Shape, k, resp.Code))
		}
		if ctx.backendTxns > 0 || len(ctx.pushStartedFor) > 0 {
			w.violate("C06", cls, cls+":backend:"+key, fmt.Sprintf("%s %s with credential shape %q started a second-factor backend transaction", pr.Method, pr.Route, pr.Shape))
		}
		after := w.snapshot(profileDBFilename)
		if !after.equalProtected(pr.Before) {
			w.violate("C06", cls, cls+":db:"+key, fmt.Sprintf("%s %s with credential shape %q changed the profile store: %s -> %s", pr.Method, pr.Route, pr.Shape, pr.Before, after))
		}
		if strings.Contains(string(resp.Body), vfSecretTokenName) {
			w.violate("C06", cls, cls+":profile-leak:"+key, fmt.Sprintf("%s %s with credential shape %q returned another user's profile data", pr.Method, pr.Route, pr.Shape))
		}
		if resp.Panic != nil {
			w.logf("probe panic: %v", resp.Panic)
		}
	})
}

func genRoutePlan(r *rand.Rand, tier string) *vfPlan {
	p := &vfPlan{Cfg: vfCfg{TOTP: true, VIP: true, BootstrapOTP: true, PwBackend: "counting", CliTokenLife: "1h", GroupsLDAP: chance(r, 0.5),
		CertBackends: pick(r, [][]string{{"U2F"}, {"U2F", "TOTP", "IPCertificate"}, {"password", "U2F"}, {"SymantecVIP", "IPCertificate"}}),
		WebUIBackends: pick(r, [][]string{{"U2F"}, {"U2F", "TOTP"}, {"password", "U2F"}, {"U2F", "SymantecVIP", "BootstrapOTP"}}),
		DenyKeys:      []string{"user_rsa2048_4"}}}
	if chance(r, 0.6) {
		// a longer deny list, in the order the operator happened to write it
		p.Cfg.DenyKeys = []string{"user_rsa2048_4", "user_rsa2048_3", "user_p256_1", "user_ed25519_3"}
		r.Shuffle(len(p.Cfg.DenyKeys), func(i, j int) { p.Cfg.DenyKeys[i], p.Cfg.DenyKeys[j] = p.Cfg.DenyKeys[j], p.Cfg.DenyKeys[i] })
	}
	add := func(s vfStep) { p.Steps = append(p.Steps, s) }
	add(vfStep{Op: "setup_totp", User: "alice"})
	add(vfStep{Op: "setup_u2f", User: "alice", Target: "tok1"})
	add(vfStep{Op: "st_save", User: "alice", A: "rename-secret"})
	// artefacts the adversary legitimately holds
	add(vfStep{Op: "mintsession", Sess: "al", User: "alice", N: int64(AuthTypeU2F | AuthTypePassword)})
	add(vfStep{Op: "certgen", Sess: "al", User: "alice", A: "x509", B: "user_p256_2", D: "8h"})
	add(vfStep{Op: "mintsession", Sess: "ma", User: "mallory", N: int64(AuthTypeU2F | AuthTypePassword)})
	add(vfStep{Op: "certgen", Sess: "ma", User: "mallory", A: "x509", B: "user_rsa2048_4", D: "8h"})
	add(vfStep{Op: "mintsession", Sess: "adm", User: "root", N: int64(AuthTypeU2F | AuthTypePassword)})
	bits := 8 + r.IntN(24)
	na := uint32(r.Uint64())
	add(vfStep{Op: "rolecert", Sess: "adm", A: "auto1", L: []string{netip.PrefixFrom(netip.AddrFrom4([4]byte{byte(na >> 24), byte(na >> 16), byte(na >> 8), byte(na)}), bits).Masked().String()}, B: "user_p256_3"})
	add(vfStep{Op: "expire_cookie"})
	if chance(r, 0.7) {
		add(vfStep{Op: "mintsession", Sess: "web0", User: "alice", N: int64(AuthTypeU2F | AuthTypePassword | AuthTypeTOTP | AuthTypeSymantecVIP)})
		add(vfStep{Op: "clishow", Sess: "web0"})
	}
	if chance(r, 0.5) {
		add(vfStep{Op: "mintsession", Sess: "web", User: "alice", N: int64(AuthTypeU2F | AuthTypePassword | AuthTypeTOTP | AuthTypeSymantecVIP)})
		add(vfStep{Op: "oidc_authorize", Sess: "web", A: "clientA", L: []string{"method:nochallenge"}})
	}
	if chance(r, 0.5) {
		// mallory holds alice's password-level session as well as her own and proves her OWN second factor in a
		// request that carries both cookies
		add(vfStep{Op: "setup_totp", User: "mallory"})
		add(vfStep{Op: "advance", D: "31s"})
		add(vfStep{Op: "mintsession", Sess: "victim", User: "alice", N: int64(AuthTypePassword)})
		add(vfStep{Op: "mintsession", Sess: "own", User: "mallory", N: int64(AuthTypePassword)})
		add(vfStep{Op: pick(r, []string{"totp", "vipotp"}), Sess: "own", A: "cur", L: []string{"precookie:victim"}})
	}
	if chance(r, 0.2) {
		// passwords come from a directory (with the offline hash cache); alice has logged in and then changed her password
		p.Cfg.PwBackend, p.Cfg.LDAPServers = "ldap", pick(r, []int{1, 2})
		add(vfStep{Op: "login", Sess: "pre", User: "alice", B: "form"})
		add(vfStep{Op: "dir_setpw", User: "alice", N: 7})
	} else if chance(r, 0.25) {
		// passwords are checked by an external helper program, which may die or fail on its own
		p.Cfg.PwBackend = "command"
		add(vfStep{Op: "helper_mode", A: pick(r, []string{"kill", "kill", "exit3", "ok"})})
	}
	shapes := []string{"none", "basic-wrong", "basic-old", "expired-cookie", "forged-cookie", "wrongkind-cookie", "lowlevel-cookie", "usercert", "denied-key-cert", "denied-key-cert", "foreign-cert", "ipcert-outside", "ipcert-outside-fwd", "csrf", "csrf"}
	methods := []string{"GET", "POST", "POST", "PUT", "DELETE", "HEAD", "OPTIONS"}
	n := 25 + r.IntN(40)
	if tier == "thorough" {
		n = 60 + r.IntN(60)
	}
	for i := 0; i < n; i++ {
		if chance(r, 0.04) {
			add(vfStep{Op: "advance", D: pick(r, []string{"1s", "31s", "10m"})})
			continue
		}
		add(vfStep{Op: "probe", N: int64(r.IntN(200)), A: pick(r, methods), B: pick(r, shapes), C: pick(r, []string{"", "", "origin", "referer", "lookalike", "port", "null", "samesite"})})
	}
	return p
}
