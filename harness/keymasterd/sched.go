package main

// Deterministic scheduler for the keymasterd simulation.
//
// One simulated run lives in one testing/synctest bubble.  Client operations
// run as *tasks* (goroutines created in the bubble).  A task runs until it
// parks at a scheduling point (vfhook.Yield before a RuntimeState mutex, the
// start of a storage operation in the wrapping SQL driver, a simulated
// backend call).  The scheduler goroutine waits for quiescence
// (synctest.Wait), then picks - from the choice tape - exactly one parked
// point to release.  So at any time at most one task thread is runnable and
// the interleaving is a pure function of plan + tape.

import (
	"fmt"
	"runtime"
	"sort"
	"strconv"
	"sync"
	"testing/synctest"
	"time"

	vfhook "github.com/Cloud-Foundations/keymaster/zz_vfhook"
)

type vfTask struct {
	id    int
	name  string
	done  bool
	fn    func()
	panic any
	ctx   *vfReqCtx
}

type vfPark struct {
	task  *vfTask
	seq   int
	label string
	ch    chan struct{}
}

type vfSched struct {
	mu       sync.Mutex // protects the fields below; held only for a few instructions, never across a block
	parked   []*vfPark
	cur      *vfTask
	bg       map[uint64]bool // goroutine ids that are background loops of the product
	parkSeq  int
	taskSeq  int
	stopping bool
	bgStop   bool // background product loops exit at their next yield (the run itself goes on)
	concur   bool // parking enabled (only while a concurrent group is being run)

	tape     []int
	tapePos  int
	used     []int // choices actually taken (with >=2 options)
	decisions int
	multi    int // decisions with >= 2 options
	stalls   int // decisions at which simulated time was let pass while tasks were parked
	trace    []string
	finished chan *vfTask
}

var vfCurSched *vfSched // the scheduler of the run executing in this process (one run at a time)

//go:norace
func vfGoid() uint64 {
	var buf [64]byte
	n := runtime.Stack(buf[:], false)
	// "goroutine 123 ["
	s := buf[len("goroutine "):n]
	i := 0
	for i < len(s) && s[i] >= '0' && s[i] <= '9' {
		i++
	}
	v, _ := strconv.ParseUint(string(s[:i]), 10, 64)
	return v
}

func newSched(tape []int) *vfSched {
	s := &vfSched{bg: map[uint64]bool{}, tape: tape}
	vfCurSched = s
	vfhook.YieldFn = s.yield
	return s
}

// yield is the function behind every inserted vfhook.Yield.
//
//go:norace
func (s *vfSched) yield(label string) {
	if s != vfCurSched {
		// a goroutine left over from an earlier run in this process
		runtime.Goexit()
	}
	if len(label) > 5 && label[:5] == "loop:" {
		// head of an endless product loop: a background goroutine
		vfRaceOff()
		s.mu.Lock()
		s.bg[vfGoid()] = true
		stop := s.stopping || s.bgStop
		s.mu.Unlock()
		vfRaceOn()
		if stop {
			runtime.Goexit()
		}
		return
	}
	s.park(label)
}

// park blocks the calling goroutine (on behalf of the current task) until the
// scheduler releases it.  No-op outside concurrent groups and for background
// goroutines.
//
//go:norace
func (s *vfSched) park(label string) {
	vfRaceOff()
	s.mu.Lock()
	if s.stopping {
		isBg := s.bg[vfGoid()]
		s.mu.Unlock()
		vfRaceOn()
		if isBg {
			runtime.Goexit()
		}
		return
	}
	if !s.concur || s.cur == nil || s.bg[vfGoid()] {
		s.mu.Unlock()
		vfRaceOn()
		return
	}
	s.parkSeq++
	p := &vfPark{task: s.cur, seq: s.parkSeq, label: label, ch: make(chan struct{})}
	s.parked = append(s.parked, p)
	s.mu.Unlock()
	<-p.ch
	vfRaceOn()
}

// runGroup runs the given task functions concurrently under the tape and
// returns when all have finished.  With a single function parking is disabled
// and the function simply runs to completion (sequential step).
func (s *vfSched) runGroup(names []string, fns []func()) {
	if len(fns) == 1 {
		s.mu.Lock()
		s.concur = false
		s.mu.Unlock()
		s.runOne(names[0], fns[0])
		return
	}
	s.mu.Lock()
	s.concur = true
	s.mu.Unlock()
	var tasks []*vfTask
	for i, fn := range fns {
		s.taskSeq++
		t := &vfTask{id: s.taskSeq, name: names[i], fn: fn}
		tasks = append(tasks, t)
	}
	// every task starts parked at its "start" point
	started := make([]chan struct{}, len(tasks))
	for i, t := range tasks {
		t := t
		st := make(chan struct{})
		started[i] = st
		s.mu.Lock()
		s.parkSeq++
		p := &vfPark{task: t, seq: s.parkSeq, label: "start", ch: st}
		s.parked = append(s.parked, p)
		s.mu.Unlock()
		go func() {
			vfRaceOff()
			<-st
			vfRaceOn()
			defer func() {
				if r := recover(); r != nil {
					t.panic = r
				}
				vfRaceOff()
				s.mu.Lock()
				t.done = true
				s.mu.Unlock()
				vfRaceOn()
			}()
			t.fn()
		}()
	}
	for steps := 0; ; steps++ {
		synctest.Wait()
		s.mu.Lock()
		if len(s.parked) == 0 {
			alldone := true
			for _, t := range tasks {
				if !t.done {
					alldone = false
				}
			}
			s.mu.Unlock()
			if alldone {
				break
			}
			// a task is blocked on something that is neither a park nor done:
			// it waits for fake time (e.g. a stalled primary).  Let time run.
			vfAdvanceMinimal()
			continue
		}
		sort.Slice(s.parked, func(i, j int) bool {
			if s.parked[i].task.id != s.parked[j].task.id {
				return s.parked[i].task.id < s.parked[j].task.id
			}
			return s.parked[i].seq < s.parked[j].seq
		})
		n := len(s.parked)
		idx := 0
		if n > 1 {
			c := 0
			if s.tapePos < len(s.tape) {
				c = s.tape[s.tapePos]
			}
			s.tapePos++
			if c < 0 {
				c = -c
			}
			if c >= 100 {
				// a stalled node: simulated time passes (2.5 s) while every task of the group stays where it is
				s.mu.Unlock()
				time.Sleep(2500 * time.Millisecond)
				s.mu.Lock()
				s.stalls++
			}
			idx = (c % 100) % n
			if c >= 100 {
				s.used = append(s.used, idx+100)
			} else {
				s.used = append(s.used, idx)
			}
			s.multi++
		}
		s.decisions++
		p := s.parked[idx]
		s.parked = append(s.parked[:idx], s.parked[idx+1:]...)
		s.cur = p.task
		s.trace = append(s.trace, fmt.Sprintf("T%d:%s@%s", p.task.id-tasks[0].id, p.task.name, p.label))
		s.mu.Unlock()
		close(p.ch)
		if steps > 100000 {
			panic("vf: scheduler step bound exceeded")
		}
	}
	s.mu.Lock()
	s.cur = nil
	s.concur = false
	s.mu.Unlock()
	for _, t := range tasks {
		if t.panic != nil {
			panic(fmt.Sprintf("vf: task %s panicked: %v", t.name, t.panic))
		}
	}
}

func (s *vfSched) runOne(name string, fn func()) {
	// a request never arrives in the same instant the previous response left:
	// minimal simulated network latency
	time.Sleep(3 * time.Millisecond)
	fn()
	synctest.Wait()
}

// stop makes every background product loop exit at its next yield.
func (s *vfSched) stop() {
	s.mu.Lock()
	s.stopping = true
	s.mu.Unlock()
}
