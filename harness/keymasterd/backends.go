package main

// Simulated edges: directory (LDAP wire), Symantec VIP service, mail, and a
// counting password backend.  Each records ground truth ("what was really
// verified, for whom") on the context of the request being served.

import (
	"bytes"
	"crypto/tls"
	"crypto/x509"
	"encoding/xml"
	"errors"
	"fmt"
	"html"
	"net"
	"net/url"
	"regexp"
	"sort"
	"strconv"
	"strings"
	"time"

	"github.com/Cloud-Foundations/keymaster/lib/simplestorage"
	"golang.org/x/crypto/bcrypt"
	ber "gopkg.in/asn1-ber.v1"
)

// ---- directory ----------------------------------------------------------------

type simDirServer struct {
	Mode string // up | down | refuse | error | slow
}

type simDirectory struct {
	w        *vfWorld
	Password map[string]string   // current directory password per user
	Groups   map[string][]string // group membership
	Servers  map[string]*simDirServer
	GroupSrv *simDirServer // the userinfo directory
	Calls    int
	GroupCalls int
	errSeq   int
}

func newSimDirectory(w *vfWorld) *simDirectory {
	d := &simDirectory{w: w, Password: map[string]string{}, Groups: map[string][]string{},
		Servers: map[string]*simDirServer{}, GroupSrv: &simDirServer{Mode: "up"}}
	for _, u := range vfUsers {
		d.Password[u] = vfInitialPassword(u)
	}
	d.Groups["gadmin"] = []string{vfAdminGroup, "staff"}
	d.Groups["alice"] = []string{"staff", "eng"}
	d.Groups["bob"] = []string{"staff"}
	d.Groups["mallory"] = []string{"staff"}
	d.Groups["auto3"] = []string{vfAutomationGroup}
	for i := 1; i <= 3; i++ {
		d.Servers[fmt.Sprintf("ldap%d.sim", i)] = &simDirServer{Mode: "up"}
	}
	return d
}

var errSimDown = errors.New("sim: LDAP server unreachable")

func (d *simDirectory) srvErr(s *simDirServer, timeoutSecs uint) error {
	switch s.Mode {
	case "down":
		// a dial to a dead host fails after the configured timeout
		time.Sleep(time.Duration(timeoutSecs) * time.Second)
		return errSimDown
	case "refuse":
		return errors.New("sim: connection refused")
	case "error":
		return errors.New("sim: LDAP Result Code 80 \"Other\"")
	case "slow":
		time.Sleep(900 * time.Millisecond)
	}
	return nil
}

func uidFromBindDN(dn string) string {
	// "uid=<user>,ou=people,dc=sim"
	if !strings.HasPrefix(dn, "uid=") {
		return ""
	}
	rest := dn[4:]
	if i := strings.Index(rest, ",ou=people"); i >= 0 {
		return rest[:i]
	}
	return ""
}

func (d *simDirectory) checkPassword(u url.URL, bindDN string, bindPassword string, timeoutSecs uint, rootCAs *x509.CertPool) (bool, error) {
	d.w.sched.park("dir:" + u.Hostname())
	d.Calls++
	srv := d.Servers[u.Hostname()]
	if srv == nil {
		return false, errSimDown
	}
	if err := d.srvErr(srv, timeoutSecs); err != nil {
		return false, err
	}
	user := uidFromBindDN(bindDN)
	pw, ok := d.Password[user]
	valid := ok && bindPassword != "" && pw == bindPassword
	if ctx := d.w.reqCtx(); ctx != nil {
		ctx.pwChecks = append(ctx.pwChecks, vfPwCheck{User: user, OK: valid})
		ctx.dirAnswered = true
	}
	d.w.pwBackendCall(user)
	return valid, nil
}

// ---- the directory at the wire: lib/authutil dials, gopkg.in/ldap.v2 speaks LDAP with this server over a pipe ----

// dial stands for the TLS connection to ldaps://<host>:636.
func (d *simDirectory) dial(dl *net.Dialer, network, addr string, cfg *tls.Config) (net.Conn, error) {
	host := addr
	if h, _, err := net.SplitHostPort(addr); err == nil {
		host = h
	}
	srv := d.Servers[host]
	password := srv != nil // the password servers; anything else is the group / userinfo directory (connection checks only)
	if srv == nil {
		srv = d.GroupSrv
	}
	if password {
		d.w.sched.park("dir:" + host)
		d.Calls++
	}
	switch srv.Mode {
	case "down":
		// a dial to a dead host fails after the configured timeout
		time.Sleep(dl.Timeout)
		return nil, &net.OpError{Op: "dial", Net: network, Err: errSimDown}
	case "refuse":
		return nil, &net.OpError{Op: "dial", Net: network, Err: errors.New("sim: connection refused")}
	case "slow":
		time.Sleep(900 * time.Millisecond)
	}
	c, s := net.Pipe()
	go d.serveLDAP(s, srv)
	return c, nil
}

func (d *simDirectory) serveLDAP(conn net.Conn, srv *simDirServer) {
	defer conn.Close()
	for {
		pkt, err := ber.ReadPacket(conn)
		if err != nil || len(pkt.Children) < 2 {
			return
		}
		msgID, _ := pkt.Children[0].Value.(int64)
		op := pkt.Children[1]
		reply := func(tag ber.Tag, code int64, msg string) {
			resp := ber.Encode(ber.ClassUniversal, ber.TypeConstructed, ber.TagSequence, nil, "LDAP Response")
			resp.AppendChild(ber.NewInteger(ber.ClassUniversal, ber.TypePrimitive, ber.TagInteger, msgID, "MessageID"))
			body := ber.Encode(ber.ClassApplication, ber.TypeConstructed, tag, nil, "Response")
			body.AppendChild(ber.NewInteger(ber.ClassUniversal, ber.TypePrimitive, ber.TagEnumerated, code, "resultCode"))
			body.AppendChild(ber.NewString(ber.ClassUniversal, ber.TypePrimitive, ber.TagOctetString, "", "matchedDN"))
			body.AppendChild(ber.NewString(ber.ClassUniversal, ber.TypePrimitive, ber.TagOctetString, msg, "diagnosticMessage"))
			resp.AppendChild(body)
			conn.Write(resp.Bytes())
		}
		switch op.Tag {
		case 0: // BindRequest: version, name, simple password
			if len(op.Children) < 3 {
				reply(1, 2, "protocol error")
				continue
			}
			bindDN, _ := op.Children[1].Value.(string)
			bindPassword := op.Children[2].Data.String()
			if srv.Mode == "error" {
				// the server is there but cannot decide: busy / unavailable / other
				d.errSeq++
				codes := []int64{80, 52, 51, 53}
				reply(1, codes[d.errSeq%len(codes)], "sim: directory cannot process the request")
				d.w.probe("dir-answered-non-credential-error")
				continue
			}
			user := uidFromBindDN(bindDN)
			pw, ok := d.Password[user]
			valid := ok && bindPassword != "" && pw == bindPassword
			if ctx := d.w.reqCtx(); ctx != nil {
				ctx.pwChecks = append(ctx.pwChecks, vfPwCheck{User: user, OK: valid})
				ctx.dirAnswered = true
			}
			d.w.pwBackendCall(user)
			if valid {
				reply(1, 0, "")
			} else {
				reply(1, 49, "sim: wrong password")
			}
		case 2: // UnbindRequest
			return
		case 3: // SearchRequest: nothing to find here
			reply(5, 0, "")
		default:
			reply(24, 2, "unsupported operation") // ExtendedResponse, protocolError
		}
	}
}

func (d *simDirectory) checkConnection(u url.URL, timeoutSecs uint, rootCAs *x509.CertPool) error {
	srv := d.Servers[u.Hostname()]
	if srv == nil {
		srv = d.GroupSrv
	}
	if srv.Mode == "up" || srv.Mode == "slow" {
		return nil
	}
	return errSimDown
}

func (d *simDirectory) getGroups(u url.URL, bindDN string, bindPassword string,
	timeoutSecs uint, rootCAs *x509.CertPool, username string,
	UserSearchBaseDNs []string, UserSearchFilter string,
	GroupSearchBaseDNs []string, GroupSearchFilter string) ([]string, error) {
	d.GroupCalls++
	if err := d.srvErr(d.GroupSrv, timeoutSecs); err != nil {
		return nil, err
	}
	g := append([]string(nil), d.Groups[username]...)
	sort.Strings(g)
	return g, nil
}

func (d *simDirectory) getAttributes(u url.URL, bindDN string, bindPassword string,
	timeoutSecs uint, rootCAs *x509.CertPool, username string,
	UserSearchBaseDNs []string, UserSearchFilter string,
	attributes []string) (map[string][]string, error) {
	if err := d.srvErr(d.GroupSrv, timeoutSecs); err != nil {
		return nil, err
	}
	return map[string][]string{"mail": {username + "@mail.sim"}}, nil
}

// ---- counting password backend ---------------------------------------------------

type countingPw struct {
	w     *vfWorld
	Fail  bool // backend errors
}

func (c *countingPw) PasswordAuthenticate(username string, password []byte) (bool, error) {
	c.w.sched.park("pw:" + username)
	c.w.pwBackendCall(username)
	if c.Fail {
		return false, errors.New("sim: password backend error")
	}
	pw, ok := c.w.dirsim.Password[username]
	valid := ok && len(password) > 0 && pw == string(password)
	if ctx := c.w.reqCtx(); ctx != nil {
		ctx.pwChecks = append(ctx.pwChecks, vfPwCheck{User: username, OK: valid})
		ctx.dirAnswered = true
	}
	return valid, nil
}

func (c *countingPw) UpdateStorage(storage simplestorage.SimpleStore) error { return nil }

// pwBackendCall records one invocation of the password backend (C14).
func (w *vfWorld) pwBackendCall(user string) {
	w.pwCalls = append(w.pwCalls, time.Now())
	if ctx := w.reqCtx(); ctx != nil {
		ctx.backendPw++
	}
}

// htpasswd content for the real htpassword backend (bcrypt, minimum cost)
var vfHtpasswdCache string

func vfHtpasswdContent() string {
	if vfHtpasswdCache != "" {
		return vfHtpasswdCache
	}
	var b strings.Builder
	for _, u := range vfUsers {
		h, err := bcrypt.GenerateFromPassword([]byte(vfInitialPassword(u)), bcrypt.MinCost)
		if err != nil {
			panic(err)
		}
		fmt.Fprintf(&b, "%s:%s\n", u, h)
	}
	vfHtpasswdCache = b.String()
	return vfHtpasswdCache
}

// ---- Symantec VIP ------------------------------------------------------------------

type simPush struct {
	ID       string
	User     string
	Approved bool
	Denied   bool
	At       time.Time
}

type simVIP struct {
	w      *vfWorld
	Fail   bool
	Pushes map[string]*simPush
	seq    int
	UsedOTP map[string]bool
}

func newSimVIP(w *vfWorld) *simVIP {
	return &simVIP{w: w, Pushes: map[string]*simPush{}, UsedOTP: map[string]bool{}}
}

// the 6-digit code a user's VIP credential shows at a given instant
func vfVipCode(user string, t time.Time) int {
	step := t.Unix() / 30
	h := uint64(1469598103934665603)
	for _, c := range []byte(fmt.Sprintf("%s/%d", user, step)) {
		h ^= uint64(c)
		h *= 1099511628211
	}
	return int(h % 1000000)
}

func (v *simVIP) validateOTP(userID string, otp int) (bool, error) {
	v.w.sched.park("vip:otp")
	if ctx := v.w.reqCtx(); ctx != nil {
		ctx.backendTxns++
	}
	if v.Fail {
		return false, errors.New("sim: VIP service error")
	}
	now := time.Now()
	ok := false
	for _, d := range []time.Duration{0, -30 * time.Second} {
		if vfVipCode(userID, now.Add(d)) == otp {
			ok = true
		}
	}
	key := fmt.Sprintf("%s/%d", userID, otp)
	if ok && v.UsedOTP[key] {
		ok = false // the service refuses a code it has already accepted
	}
	if ok {
		v.UsedOTP[key] = true
		if ctx := v.w.reqCtx(); ctx != nil {
			ctx.truth = append(ctx.truth, vfClaim{Factor: AuthTypeSymantecVIP, User: userID})
		}
	}
	return ok, nil
}

func (v *simVIP) startPush(userID string) (string, error) {
	v.w.sched.park("vip:push")
	if ctx := v.w.reqCtx(); ctx != nil {
		ctx.backendTxns++
		ctx.pushStartedFor = append(ctx.pushStartedFor, userID)
	}
	if v.Fail {
		return "", errors.New("sim: VIP service error")
	}
	v.seq++
	id := fmt.Sprintf("txn-%d", v.seq)
	v.Pushes[id] = &simPush{ID: id, User: userID, At: time.Now()}
	return id, nil
}

func (v *simVIP) pushApproved(txn string) (bool, error) {
	v.w.sched.park("vip:poll")
	if v.Fail {
		return false, errors.New("sim: VIP service error")
	}
	p := v.Pushes[txn]
	if p == nil {
		return false, nil
	}
	if p.Approved && time.Since(p.At) <= 120*time.Second {
		if ctx := v.w.reqCtx(); ctx != nil {
			ctx.truth = append(ctx.truth, vfClaim{Factor: AuthTypeSymantecVIP, User: p.User})
		}
		return true, nil
	}
	return false, nil
}

// ---- the VIP user services at the wire (SOAP over HTTPS; lib/vip builds the requests and evaluates the answers) ----

var (
	reVipUser  = regexp.MustCompile(`<(?:\w+:)?userId>([^<]*)</`)
	reVipCred  = regexp.MustCompile(`<(?:\w+:)?credentialId>([^<]*)</`)
	reVipOTP   = regexp.MustCompile(`<(?:\w+:)?otp>([^<]*)</`)
	reVipTxn   = regexp.MustCompile(`<(?:\w+:)?transactionId>([^<]*)</`)
	reVipReqID = regexp.MustCompile(`<(?:\w+:)?requestId>([^<]*)</`)
)

const vipNS = `xmlns="https://schemas.symantec.com/vip/2011/04/vipuserservices"`

func vipEnvelope(inner string) []byte {
	return []byte(`<?xml version="1.0" encoding="UTF-8"?>` + "\n" + `<S:Envelope xmlns:S="http://schemas.xmlsoap.org/soap/envelope/"><S:Body>` + inner + `</S:Body></S:Envelope>`)
}

func xmlEsc(s string) string {
	var b bytes.Buffer
	xml.EscapeText(&b, []byte(s))
	return b.String()
}

// soap answers one POST of lib/vip.
func (v *simVIP) soap(data []byte, targetURL string, contentType string) ([]byte, error) {
	body := string(data)
	first := func(re *regexp.Regexp) string {
		if m := re.FindStringSubmatch(body); m != nil {
			return html.UnescapeString(m[1])
		}
		return ""
	}
	reqID := xmlEsc(first(reVipReqID))
	switch {
	case strings.Contains(body, "GetUserInfoRequest"):
		// (no decision point of its own: the credential list is static)
		if v.Fail {
			return nil, errors.New("sim: VIP service unreachable")
		}
		user := first(reVipUser)
		return vipEnvelope(`<GetUserInfoResponse ` + vipNS + `><requestId>` + reqID + `</requestId><status>0000</status><statusMessage>Success</statusMessage><userId>` + xmlEsc(user) +
			`</userId><userCreationTime>1999-01-01T00:00:00.000Z</userCreationTime><userStatus>ACTIVE</userStatus><numBindings>2</numBindings>` +
			`<credentialBindingDetail><credentialId>SYMD` + xmlEsc(user) + `</credentialId><credentialType>STANDARD_OTP</credentialType><credentialStatus>DISABLED</credentialStatus><bindingDetail><bindStatus>DISABLED</bindStatus></bindingDetail></credentialBindingDetail>` +
			`<credentialBindingDetail><credentialId>SYMC` + xmlEsc(user) + `</credentialId><credentialType>STANDARD_OTP</credentialType><credentialStatus>ENABLED</credentialStatus><bindingDetail><bindStatus>ENABLED</bindStatus></bindingDetail></credentialBindingDetail>` +
			`</GetUserInfoResponse>`), nil
	case strings.Contains(body, "AuthenticateCredentialsRequest"):
		cred := first(reVipCred)
		otp, _ := strconv.Atoi(first(reVipOTP))
		ok, err := false, error(nil)
		if strings.HasPrefix(cred, "SYMC") {
			ok, err = v.validateOTP(strings.TrimPrefix(cred, "SYMC"), otp)
		} else {
			v.w.sched.park("vip:otp")
		}
		if err != nil {
			return nil, err
		}
		st, msg := "6009", "Authentication failed"
		if ok {
			st, msg = "0000", "Success"
		}
		return vipEnvelope(`<AuthenticateCredentialsResponse ` + vipNS + `><requestId>` + reqID + `</requestId><status>` + st + `</status><statusMessage>` + msg + `</statusMessage><credentialId>` + xmlEsc(cred) +
			`</credentialId><credentialType>STANDARD_OTP</credentialType></AuthenticateCredentialsResponse>`), nil
	case strings.Contains(body, "AuthenticateUserWithPushRequest"):
		id, err := v.startPush(first(reVipUser))
		if err != nil {
			return nil, err
		}
		return vipEnvelope(`<AuthenticateUserWithPushResponse ` + vipNS + `><requestId>` + reqID + `</requestId><status>6040</status><statusMessage>Mobile push request sent</statusMessage><transactionId>` + id +
			`</transactionId><pushDetail><pushCredentialId>SYMC1</pushCredentialId><pushSent>true</pushSent></pushDetail></AuthenticateUserWithPushResponse>`), nil
	case strings.Contains(body, "PollPushStatusRequest"):
		txn := first(reVipTxn)
		v.w.sched.park("vip:poll")
		if v.Fail {
			return nil, errors.New("sim: VIP service unreachable")
		}
		st, msg := "7005", "Mobile push request not found"
		if p := v.Pushes[txn]; p != nil {
			switch {
			case p.Denied:
				st, msg = "7002", "Mobile push request denied by user"
			case time.Since(p.At) > 120*time.Second:
				st, msg = "7003", "Mobile push request expired"
				v.w.probe("vip-push-expired-polled")
			case p.Approved:
				st, msg = "7000", "Mobile push request approved by user"
				if ctx := v.w.reqCtx(); ctx != nil {
					ctx.truth = append(ctx.truth, vfClaim{Factor: AuthTypeSymantecVIP, User: p.User})
				}
			default:
				st, msg = "7001", "Mobile push request in progress"
			}
		} else {
			v.w.probe("vip-push-unknown-polled")
		}
		return vipEnvelope(`<PollPushStatusResponse ` + vipNS + `><requestId>` + reqID + `</requestId><status>0000</status><statusMessage>Success</statusMessage><transactionStatus><transactionId>` + xmlEsc(txn) +
			`</transactionId><status>` + st + `</status><statusMessage>` + msg + `</statusMessage></transactionStatus></PollPushStatusResponse>`), nil
	}
	return vipEnvelope(`<S:Fault><faultcode>S:Client</faultcode><faultstring>unknown request</faultstring></S:Fault>`), nil
}

// the user's device answers the newest pending push of that user
func (v *simVIP) deviceAnswer(user string, approve bool) bool {
	var best *simPush
	for _, p := range v.Pushes {
		if p.User == user && !p.Approved && !p.Denied {
			if best == nil || p.At.After(best.At) || (p.At.Equal(best.At) && p.ID > best.ID) {
				best = p
			}
		}
	}
	if best == nil {
		return false
	}
	if approve {
		best.Approved = true
	} else {
		best.Denied = true
	}
	return true
}

// ---- mail ----------------------------------------------------------------------------

type simMailMsg struct {
	From string
	To   []string
	Body string
}

type simMail struct {
	w    *vfWorld
	Fail bool
	Msgs []simMailMsg
}

func (m *simMail) SendMail(from string, to []string, msg []byte) error {
	if m.Fail {
		return errors.New("sim: smtp error")
	}
	m.Msgs = append(m.Msgs, simMailMsg{From: from, To: to, Body: string(msg)})
	return nil
}

// lastOTPFor extracts the newest bootstrap OTP mailed to the user.
func (m *simMail) lastOTPFor(user string) string {
	for i := len(m.Msgs) - 1; i >= 0; i-- {
		msg := m.Msgs[i]
		if len(msg.To) == 1 && msg.To[0] == user+"@mail.sim" {
			const marker = "(Bootstrap OTP) which is:\n"
			if j := strings.Index(msg.Body, marker); j >= 0 {
				rest := msg.Body[j+len(marker):]
				if k := strings.IndexByte(rest, '\n'); k >= 0 {
					return strings.TrimSpace(rest[:k])
				}
			}
		}
	}
	return ""
}
