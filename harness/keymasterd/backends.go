package main

// Simulated edges: directory (LDAP wire), Symantec VIP service, mail, and a
// counting password backend.  Each records ground truth ("what was really
// verified, for whom") on the context of the request being served.

import (
	"crypto/x509"
	"errors"
	"fmt"
	"net/url"
	"sort"
	"strings"
	"time"

	"github.com/Cloud-Foundations/keymaster/lib/simplestorage"
	"golang.org/x/crypto/bcrypt"
)

// ---- directory ----------------------------------------------------------------

type simDirServer struct {
	Mode string // up | down | refuse | error | slow
}

type simDirectory struct {
	w        *vfWorld
	Password map[string]string   // current directory password per user
	Groups   map[string][]string // group membership
	Servers  map[string]*simDirServer
	GroupSrv *simDirServer // the userinfo directory
	Calls    int
	GroupCalls int
}

func newSimDirectory(w *vfWorld) *simDirectory {
	d := &simDirectory{w: w, Password: map[string]string{}, Groups: map[string][]string{},
		Servers: map[string]*simDirServer{}, GroupSrv: &simDirServer{Mode: "up"}}
	for _, u := range vfUsers {
		d.Password[u] = vfInitialPassword(u)
	}
	d.Groups["gadmin"] = []string{vfAdminGroup, "staff"}
	d.Groups["alice"] = []string{"staff", "eng"}
	d.Groups["bob"] = []string{"staff"}
	d.Groups["mallory"] = []string{"staff"}
	d.Groups["auto3"] = []string{vfAutomationGroup}
	for i := 1; i <= 3; i++ {
		d.Servers[fmt.Sprintf("ldap%d.sim", i)] = &simDirServer{Mode: "up"}
	}
	return d
}

var errSimDown = errors.New("sim: LDAP server unreachable")

func (d *simDirectory) srvErr(s *simDirServer, timeoutSecs uint) error {
	switch s.Mode {
	case "down":
		// a dial to a dead host fails after the configured timeout
		time.Sleep(time.Duration(timeoutSecs) * time.Second)
		return errSimDown
	case "refuse":
		return errors.New("sim: connection refused")
	case "error":
		return errors.New("sim: LDAP Result Code 80 \"Other\"")
	case "slow":
		time.Sleep(900 * time.Millisecond)
	}
	return nil
}

func uidFromBindDN(dn string) string {
	// "uid=<user>,ou=people,dc=sim"
	if !strings.HasPrefix(dn, "uid=") {
		return ""
	}
	rest := dn[4:]
	if i := strings.Index(rest, ",ou=people"); i >= 0 {
		return rest[:i]
	}
	return ""
}

func (d *simDirectory) checkPassword(u url.URL, bindDN string, bindPassword string, timeoutSecs uint, rootCAs *x509.CertPool) (bool, error) {
	d.w.sched.park("dir:" + u.Hostname())
	d.Calls++
	srv := d.Servers[u.Hostname()]
	if srv == nil {
		return false, errSimDown
	}
	if err := d.srvErr(srv, timeoutSecs); err != nil {
		return false, err
	}
	user := uidFromBindDN(bindDN)
	pw, ok := d.Password[user]
	valid := ok && bindPassword != "" && pw == bindPassword
	if ctx := d.w.reqCtx(); ctx != nil {
		ctx.pwChecks = append(ctx.pwChecks, vfPwCheck{User: user, OK: valid})
		ctx.dirAnswered = true
	}
	d.w.pwBackendCall(user)
	return valid, nil
}

func (d *simDirectory) checkConnection(u url.URL, timeoutSecs uint, rootCAs *x509.CertPool) error {
	srv := d.Servers[u.Hostname()]
	if srv == nil {
		srv = d.GroupSrv
	}
	if srv.Mode == "up" || srv.Mode == "slow" {
		return nil
	}
	return errSimDown
}

func (d *simDirectory) getGroups(u url.URL, bindDN string, bindPassword string,
	timeoutSecs uint, rootCAs *x509.CertPool, username string,
	UserSearchBaseDNs []string, UserSearchFilter string,
	GroupSearchBaseDNs []string, GroupSearchFilter string) ([]string, error) {
	d.GroupCalls++
	if err := d.srvErr(d.GroupSrv, timeoutSecs); err != nil {
		return nil, err
	}
	g := append([]string(nil), d.Groups[username]...)
	sort.Strings(g)
	return g, nil
}

func (d *simDirectory) getAttributes(u url.URL, bindDN string, bindPassword string,
	timeoutSecs uint, rootCAs *x509.CertPool, username string,
	UserSearchBaseDNs []string, UserSearchFilter string,
	attributes []string) (map[string][]string, error) {
	if err := d.srvErr(d.GroupSrv, timeoutSecs); err != nil {
		return nil, err
	}
	return map[string][]string{"mail": {username + "@mail.sim"}}, nil
}

// ---- counting password backend ---------------------------------------------------

type countingPw struct {
	w     *vfWorld
	Fail  bool // backend errors
}

func (c *countingPw) PasswordAuthenticate(username string, password []byte) (bool, error) {
	c.w.sched.park("pw:" + username)
	c.w.pwBackendCall(username)
	if c.Fail {
		return false, errors.New("sim: password backend error")
	}
	pw, ok := c.w.dirsim.Password[username]
	valid := ok && len(password) > 0 && pw == string(password)
	if ctx := c.w.reqCtx(); ctx != nil {
		ctx.pwChecks = append(ctx.pwChecks, vfPwCheck{User: username, OK: valid})
		ctx.dirAnswered = true
	}
	return valid, nil
}

func (c *countingPw) UpdateStorage(storage simplestorage.SimpleStore) error { return nil }

// pwBackendCall records one invocation of the password backend (C14).
func (w *vfWorld) pwBackendCall(user string) {
	w.pwCalls = append(w.pwCalls, time.Now())
	if ctx := w.reqCtx(); ctx != nil {
		ctx.backendPw++
	}
}

// htpasswd content for the real htpassword backend (bcrypt, minimum cost)
var vfHtpasswdCache string

func vfHtpasswdContent() string {
	if vfHtpasswdCache != "" {
		return vfHtpasswdCache
	}
	var b strings.Builder
	for _, u := range vfUsers {
		h, err := bcrypt.GenerateFromPassword([]byte(vfInitialPassword(u)), bcrypt.MinCost)
		if err != nil {
			panic(err)
		}
		fmt.Fprintf(&b, "%s:%s\n", u, h)
	}
	vfHtpasswdCache = b.String()
	return vfHtpasswdCache
}

// ---- Symantec VIP ------------------------------------------------------------------

type simPush struct {
	ID       string
	User     string
	Approved bool
	Denied   bool
	At       time.Time
}

type simVIP struct {
	w      *vfWorld
	Fail   bool
	Pushes map[string]*simPush
	seq    int
	UsedOTP map[string]bool
}

func newSimVIP(w *vfWorld) *simVIP {
	return &simVIP{w: w, Pushes: map[string]*simPush{}, UsedOTP: map[string]bool{}}
}

// the 6-digit code a user's VIP credential shows at a given instant
func vfVipCode(user string, t time.Time) int {
	step := t.Unix() / 30
	h := uint64(1469598103934665603)
	for _, c := range []byte(fmt.Sprintf("%s/%d", user, step)) {
		h ^= uint64(c)
		h *= 1099511628211
	}
	return int(h % 1000000)
}

func (v *simVIP) validateOTP(userID string, otp int) (bool, error) {
	v.w.sched.park("vip:otp")
	if ctx := v.w.reqCtx(); ctx != nil {
		ctx.backendTxns++
	}
	if v.Fail {
		return false, errors.New("sim: VIP service error")
	}
	now := time.Now()
	ok := false
	for _, d := range []time.Duration{0, -30 * time.Second} {
		if vfVipCode(userID, now.Add(d)) == otp {
			ok = true
		}
	}
	key := fmt.Sprintf("%s/%d", userID, otp)
	if ok && v.UsedOTP[key] {
		ok = false // the service refuses a code it has already accepted
	}
	if ok {
		v.UsedOTP[key] = true
		if ctx := v.w.reqCtx(); ctx != nil {
			ctx.truth = append(ctx.truth, vfClaim{Factor: AuthTypeSymantecVIP, User: userID})
		}
	}
	return ok, nil
}

func (v *simVIP) startPush(userID string) (string, error) {
	v.w.sched.park("vip:push")
	if ctx := v.w.reqCtx(); ctx != nil {
		ctx.backendTxns++
		ctx.pushStartedFor = append(ctx.pushStartedFor, userID)
	}
	if v.Fail {
		return "", errors.New("sim: VIP service error")
	}
	v.seq++
	id := fmt.Sprintf("txn-%d", v.seq)
	v.Pushes[id] = &simPush{ID: id, User: userID, At: time.Now()}
	return id, nil
}

func (v *simVIP) pushApproved(txn string) (bool, error) {
	v.w.sched.park("vip:poll")
	if v.Fail {
		return false, errors.New("sim: VIP service error")
	}
	p := v.Pushes[txn]
	if p == nil {
		return false, nil
	}
	if p.Approved && time.Since(p.At) <= 120*time.Second {
		if ctx := v.w.reqCtx(); ctx != nil {
			ctx.truth = append(ctx.truth, vfClaim{Factor: AuthTypeSymantecVIP, User: p.User})
		}
		return true, nil
	}
	return false, nil
}

// the user's device answers the newest pending push of that user
func (v *simVIP) deviceAnswer(user string, approve bool) bool {
	var best *simPush
	for _, p := range v.Pushes {
		if p.User == user && !p.Approved && !p.Denied {
			if best == nil || p.At.After(best.At) || (p.At.Equal(best.At) && p.ID > best.ID) {
				best = p
			}
		}
	}
	if best == nil {
		return false
	}
	if approve {
		best.Approved = true
	} else {
		best.Denied = true
	}
	return true
}

// ---- mail ----------------------------------------------------------------------------

type simMailMsg struct {
	From string
	To   []string
	Body string
}

type simMail struct {
	w    *vfWorld
	Fail bool
	Msgs []simMailMsg
}

func (m *simMail) SendMail(from string, to []string, msg []byte) error {
	if m.Fail {
		return errors.New("sim: smtp error")
	}
	m.Msgs = append(m.Msgs, simMailMsg{From: from, To: to, Body: string(msg)})
	return nil
}

// lastOTPFor extracts the newest bootstrap OTP mailed to the user.
func (m *simMail) lastOTPFor(user string) string {
	for i := len(m.Msgs) - 1; i >= 0; i-- {
		msg := m.Msgs[i]
		if len(msg.To) == 1 && msg.To[0] == user+"@mail.sim" {
			const marker = "(Bootstrap OTP) which is:\n"
			if j := strings.Index(msg.Body, marker); j >= 0 {
				rest := msg.Body[j+len(marker):]
				if k := strings.IndexByte(rest, '\n'); k >= 0 {
					return strings.TrimSpace(rest[:k])
				}
			}
		}
	}
	return ""
}
