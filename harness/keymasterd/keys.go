package main

// Key fixtures (generated once by /verif/tools/mkfix, committed under
// /verif/fixtures): CA keys, user keys of every type the client offers, U2F
// device keys.  Loaded once per process.

import (
	"crypto"
	"crypto/ecdsa"
	"crypto/ed25519"
	"crypto/rsa"
	"crypto/sha256"
	"crypto/x509"
	"encoding/pem"
	"fmt"
	"os"
	"strings"
	"sync"

	"golang.org/x/crypto/ssh"
)

type vfKeyT struct {
	Name string
	Priv crypto.Signer
}

var (
	vfKeyCache   = map[string]*vfKeyT{}
	vfKeyCacheMu sync.Mutex
)

func vfKey(name string) *vfKeyT {
	vfKeyCacheMu.Lock()
	defer vfKeyCacheMu.Unlock()
	if k, ok := vfKeyCache[name]; ok {
		return k
	}
	file := name + ".pem"
	if strings.Contains(name, ".") {
		file = name
	}
	data, err := os.ReadFile(vfFixture(file))
	if err != nil {
		panic(fmt.Sprintf("vf: fixture %s: %v", name, err))
	}
	blk, _ := pem.Decode(data)
	if blk == nil {
		panic("vf: fixture not pem: " + name)
	}
	var s crypto.Signer
	switch blk.Type {
	case "RSA PRIVATE KEY":
		k, err := x509.ParsePKCS1PrivateKey(blk.Bytes)
		if err != nil {
			panic(err)
		}
		s = k
	default:
		k, err := x509.ParsePKCS8PrivateKey(blk.Bytes)
		if err != nil {
			panic(err)
		}
		s = k.(crypto.Signer)
	}
	kt := &vfKeyT{Name: name, Priv: s}
	vfKeyCache[name] = kt
	return kt
}

func (k *vfKeyT) pub() crypto.PublicKey { return k.Priv.Public() }

// authorized_keys line
func (k *vfKeyT) sshPub() string {
	p, err := ssh.NewPublicKey(k.pub())
	if err != nil {
		panic(err)
	}
	return string(ssh.MarshalAuthorizedKey(p))
}

func (k *vfKeyT) sshWire() []byte {
	p, err := ssh.NewPublicKey(k.pub())
	if err != nil {
		panic(err)
	}
	return p.Marshal()
}

func (k *vfKeyT) sshFP() string {
	return fmt.Sprintf("%x", sha256.Sum256(k.sshWire()))
}

func (k *vfKeyT) pkixDER() []byte {
	der, err := x509.MarshalPKIXPublicKey(k.pub())
	if err != nil {
		panic(err)
	}
	return der
}

func (k *vfKeyT) pkixPEM() string {
	return string(pem.EncodeToMemory(&pem.Block{Type: "PUBLIC KEY", Bytes: k.pkixDER()}))
}

func (k *vfKeyT) kind() string {
	switch p := k.pub().(type) {
	case *rsa.PublicKey:
		return fmt.Sprintf("rsa%d", p.N.BitLen())
	case *ecdsa.PublicKey:
		return fmt.Sprintf("p%d", p.Curve.Params().BitSize)
	case ed25519.PublicKey:
		return "ed25519"
	}
	return "?"
}

var vfUserKeyNames = []string{
	"user_rsa2048_1", "user_rsa2048_2", "user_rsa2048_3", "user_rsa2048_4", "user_rsa3072_1",
	"user_p256_1", "user_p256_2", "user_p256_3", "user_p384_1", "user_p384_2", "user_p521_1",
	"user_ed25519_1", "user_ed25519_2", "user_ed25519_3",
}

var vfCertCache = map[string]*x509.Certificate{}

func vfCertFixture(name string) *x509.Certificate {
	vfKeyCacheMu.Lock()
	defer vfKeyCacheMu.Unlock()
	if c, ok := vfCertCache[name]; ok {
		return c
	}
	c, err := x509.ParseCertificate(vfPEMDer(vfFixture(name)))
	if err != nil {
		panic(err)
	}
	vfCertCache[name] = c
	return c
}
