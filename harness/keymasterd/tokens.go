package main

// Token forging helpers for the Byzantine client (C04, C07, C12): re-signing a
// payload with another key / algorithm, claim mutation, byte corruption.

import (
	"crypto/hmac"
	"crypto/sha256"
	"encoding/base64"
	"encoding/json"
	"strings"

	"github.com/go-jose/go-jose/v4"
)

// vfResignJWT re-signs the (optionally mutated) claims of tok with the named
// fixture key using that key's natural algorithm.
func vfResignJWT(tok, keyName string, mutate func(m map[string]any)) string {
	pl := vfJWTPayload(tok)
	if pl == nil {
		return ""
	}
	if mutate != nil {
		mutate(pl)
	}
	k := vfKey(keyName)
	alg, err := publicToPreferedJoseSigAlgo(k.pub())
	if err != nil {
		return ""
	}
	signer, err := jose.NewSigner(jose.SigningKey{Algorithm: alg, Key: k.Priv}, (&jose.SignerOptions{}).WithType("JWT"))
	if err != nil {
		return ""
	}
	b, _ := json.Marshal(pl)
	obj, err := signer.Sign(b)
	if err != nil {
		return ""
	}
	s, err := obj.CompactSerialize()
	if err != nil {
		return ""
	}
	return s
}

func b64raw(b []byte) string { return base64.RawURLEncoding.EncodeToString(b) }

// alg:none variant of a token (claims optionally mutated)
func vfAlgNone(tok string, mutate func(m map[string]any)) string {
	pl := vfJWTPayload(tok)
	if pl == nil {
		return ""
	}
	if mutate != nil {
		mutate(pl)
	}
	b, _ := json.Marshal(pl)
	return b64raw([]byte(`{"alg":"none","typ":"JWT"}`)) + "." + b64raw(b) + "."
}

// HS256 keyed with the (public) verification key material
func vfHS256WithPublic(tok string, secret []byte, mutate func(m map[string]any)) string {
	pl := vfJWTPayload(tok)
	if pl == nil {
		return ""
	}
	if mutate != nil {
		mutate(pl)
	}
	b, _ := json.Marshal(pl)
	signing := b64raw([]byte(`{"alg":"HS256","typ":"JWT"}`)) + "." + b64raw(b)
	m := hmac.New(sha256.New, secret)
	m.Write([]byte(signing))
	return signing + "." + b64raw(m.Sum(nil))
}

// vfCorrupt flips one character of the chosen part (0 header, 1 payload, 2 signature)
func vfCorrupt(tok string, part, pos int) string {
	parts := strings.Split(tok, ".")
	if len(parts) != 3 || len(parts[part]) == 0 {
		return ""
	}
	b := []byte(parts[part])
	i := pos % len(b)
	if b[i] == 'A' {
		b[i] = 'B'
	} else {
		b[i] = 'A'
	}
	parts[part] = string(b)
	return strings.Join(parts, ".")
}

// vfJWKEmbed re-signs the token with a foreign key of the same algorithm; the header names the GENUINE key by its
// (public) fingerprint as kid and, if embed is set, carries the forger's own public key as embedded jwk.
func vfJWKEmbed(tok string, embed bool) string {
	pl := vfJWTPayload(tok)
	if pl == nil {
		return ""
	}
	k := vfKey("ca_rsa_alt")
	alg, err := publicToPreferedJoseSigAlgo(k.pub())
	if err != nil {
		return ""
	}
	jwk := jose.JSONWebKey{Key: k.Priv, KeyID: vfKey("ca_rsa").sshFP(), Algorithm: string(alg)}
	opts := (&jose.SignerOptions{EmbedJWK: embed}).WithType("JWT")
	if embed {
		opts = opts.WithHeader(jose.HeaderKey("kid"), vfKey("ca_rsa").sshFP())
	}
	signer, err := jose.NewSigner(jose.SigningKey{Algorithm: alg, Key: jwk}, opts)
	if err != nil {
		return ""
	}
	b, _ := json.Marshal(pl)
	obj, err := signer.Sign(b)
	if err != nil {
		return ""
	}
	s, err := obj.CompactSerialize()
	if err != nil {
		return ""
	}
	return s
}
