package main

// C11: IP-restricted automation certificates work only from their netblocks.
// The deciding input is the TCP peer address, an attribute of the simulated
// transport; flows are histories (mint -> use -> refresh -> use the refreshed
// one -> refresh again) across clock advances up to the 45-day life.

import (
	"crypto/rand"
	"crypto/x509"
	"crypto/x509/pkix"
	"encoding/asn1"
	"fmt"
	"math/big"
	mrand "math/rand/v2"
	"net/netip"
	"strings"
	"time"
)

func init() {
	// a certificate signed by the trusted role-requesting CA whose address extension is structurally damaged
	// A: damage kind; Target: peer; B: endpoint (refresh|certgen)
	vfExtraOps["badcert"] = func(w *vfWorld, st vfStep, p *vfPrepared) *vfPrepared {
		ext, intended := vfDamagedExtension(st.A)
		cert := w.signRoleCert("auto1", ext)
		if cert == nil {
			return nil
		}
		a := &vfArtefact{Kind: "ipcert", Subject: "auto1", Cert: cert, AuthAt: time.Now(), Exp: cert.NotAfter, Nets: intended, Forged: "damaged:" + st.A}
		w.model.addArt(a)
		key := vfKey("user_p256_2")
		var r *vfReq
		if st.B == "certgen" {
			r = &vfReq{Method: "POST", Path: "/certgen/auto1", Cert: cert, Peer: st.Target, Header: map[string]string{}, Multi: map[string]string{"@pubkeyfile": key.sshPub()}}
		} else {
			r = &vfReq{Method: "POST", Path: "/v1/refreshRoleRequestingCert", Cert: cert, Peer: st.Target, Header: map[string]string{},
				Form: map[string][]string{"pubkey": {b64raw(key.pkixDER())}}}
		}
		p.call = w.prepare(r)
		p.intent.Op = "badcert:" + st.A
		p.after = func(resp *vfResp) {
			w.probe("damaged-extension-presented")
			if resp.Panic != nil {
				w.violate("C11", "crash-on-extension", "crash-on-extension:"+st.A, fmt.Sprintf("handler panicked on a damaged address extension (%s): %v", st.A, resp.Panic))
				return
			}
			iss := vfParseIssued(resp.Body)
			if resp.Code == 200 && iss != nil {
				if !vfPeerInNets(st.Target, intended) {
					w.violate("C11", "widened", "widened:"+st.A, fmt.Sprintf("a certificate with a damaged extension (%s) was admitted from %s", st.A, st.Target))
				}
				if iss.X509 != nil && st.B != "certgen" {
					if nets, err := vfExtractNets(iss.X509); err == nil && len(intended) > 0 {
						for _, n := range nets {
							if !vfNetWithinAny(n, intended) {
								w.violate("C11", "widened", "widened-refresh:"+st.A, fmt.Sprintf("refreshing a damaged certificate produced netblock %s outside %v", n, intended))
							}
						}
					}
				}
			}
		}
		return p
	}
	vfProfiles["C11"] = &vfProfile{
		Gen:        genIPCertPlan,
		Nontrivial: func(res *vfResult) bool { return res.Probes["refresh-inside"] > 0 && res.Probes["refresh-outside"] > 0 },
		Rule:       "an automation admin mints certificates for 1-4 netblocks (prefix lengths 0-32); nodes then present them from the network address, the broadcast address, one below, one above, random inside/outside addresses, IPv6 and IPv4-mapped peers to the refresh endpoint and the user certificate endpoint; refreshed certificates are used and refreshed again; the clock advances up to beyond the 45-day life; trusted-CA-signed certificates with structurally damaged address extensions are presented. non-trivial = a run with at least one refresh attempt from inside and one from outside; distinct = distinct canonical event log",
		Setup: func(w *vfWorld) {
			w.observers = append(w.observers, func(p *vfPrepared, ctx *vfReqCtx, resp *vfResp) {
				rr := p.intent.Role
				if rr == nil || !rr.Refresh || resp.NoHandshake {
					return
				}
				inside := vfPeerInNets(rr.Peer, rr.From.Nets)
				if strings.HasPrefix(strings.ToLower(rr.Peer), "::ffff:") {
					w.probe("refresh-mapped-peer")
				}
				if inside {
					w.probe("refresh-inside")
				} else {
					w.probe("refresh-outside")
				}
				issued := resp.Code == 200 && vfParseIssued(resp.Body) != nil
				if resp.Panic != nil {
					w.violate("C11", "crash-on-extension", "crash:refresh", fmt.Sprintf("refresh handler panicked: %v", resp.Panic))
				}
				if inside && !issued && ctx.req.Method == "POST" && w.cleanWindow() && time.Now().Before(rr.From.Exp) && rr.From.Forged == "" {
					w.violate("C11", "refused-inside", fmt.Sprintf("refused-inside:%d", resp.Code),
						fmt.Sprintf("refresh from %s inside %v was answered %d", rr.Peer, rr.From.Nets, resp.Code))
				}
			})
		},
	}
}

func vfNetWithinAny(n string, within []string) bool {
	p, err := netip.ParsePrefix(n)
	if err != nil {
		return false
	}
	for _, w := range within {
		q, err := netip.ParsePrefix(w)
		if err != nil {
			continue
		}
		if q.Bits() <= p.Bits() && q.Masked().Contains(p.Masked().Addr()) {
			return true
		}
	}
	return false
}

// signRoleCert: a certificate chaining to the role-requesting CA (which the
// server trusts) carrying the given raw extension value
func (w *vfWorld) signRoleCert(cn string, extValue []byte) *x509.Certificate {
	parent, err := x509.ParseCertificate(w.state.selfRoleCaCertDer)
	if err != nil {
		return nil
	}
	key := vfKey("user_p256_3")
	serial, _ := rand.Int(rand.Reader, new(big.Int).Lsh(big.NewInt(1), 100))
	tmpl := x509.Certificate{SerialNumber: serial, Subject: pkix.Name{CommonName: cn}, NotBefore: time.Now().Add(-time.Minute), NotAfter: time.Now().Add(30 * 24 * time.Hour),
		KeyUsage: x509.KeyUsageDigitalSignature, ExtKeyUsage: []x509.ExtKeyUsage{x509.ExtKeyUsageClientAuth}, BasicConstraintsValid: true,
		ExtraExtensions: []pkix.Extension{{Id: vfOidIPDelegation, Critical: false, Value: extValue}}}
	der, err := x509.CreateCertificate(rand.Reader, &tmpl, parent, key.pub(), vfKey("ca_rsa").Priv)
	if err != nil {
		return nil
	}
	c, err := x509.ParseCertificate(der)
	if err != nil {
		return nil
	}
	return c
}

// signOperatorCert: an IP-restricted certificate issued by the OPERATOR's own client CA (client_ca_filename), which
// checkAuth trusts as well, with a lifetime of the operator's choosing
func (w *vfWorld) signOperatorCert(cn string, extValue []byte, life time.Duration) *x509.Certificate {
	parent := vfCertFixture("adminCA.pem")
	caKey, err := x509.ParsePKCS1PrivateKey(vfPEMFile("adminCA.key"))
	if err != nil {
		return nil
	}
	key := vfKey("user_p256_3")
	serial, _ := rand.Int(rand.Reader, new(big.Int).Lsh(big.NewInt(1), 100))
	tmpl := x509.Certificate{SerialNumber: serial, Subject: pkix.Name{CommonName: cn}, NotBefore: time.Now().Add(-time.Minute), NotAfter: time.Now().Add(life),
		KeyUsage: x509.KeyUsageDigitalSignature, ExtKeyUsage: []x509.ExtKeyUsage{x509.ExtKeyUsageClientAuth}, BasicConstraintsValid: true,
		ExtraExtensions: []pkix.Extension{{Id: vfOidIPDelegation, Critical: false, Value: extValue}}}
	der, err := x509.CreateCertificate(rand.Reader, &tmpl, parent, key.pub(), caKey)
	if err != nil {
		return nil
	}
	c, err := x509.ParseCertificate(der)
	if err != nil {
		return nil
	}
	return c
}

func init() {
	// the operator's CA issues an automation certificate (10.20.0.0/16) valid for D; it becomes the newest ipcert artefact
	vfExtraOps["opcert"] = func(w *vfWorld, st vfStep, p *vfPrepared) *vfPrepared {
		p.env = func() {
			life, err := time.ParseDuration(st.D)
			if err != nil {
				life = 90 * 24 * time.Hour
			}
			ext, nets := vfDamagedExtension("")
			if c := w.signOperatorCert(st.User, ext, life); c != nil {
				w.model.addArt(&vfArtefact{Kind: "ipcert", Subject: st.User, Cert: c, AuthAt: time.Now(), Exp: c.NotAfter, Nets: nets})
				w.probe("operator-issued-ipcert")
			}
		}
		return p
	}
}

type vfFam struct {
	Family []byte
	Addrs  []asn1.BitString
}

// returns the raw extension and the netblocks the certificate was "meant" for
func vfDamagedExtension(kind string) ([]byte, []string) {
	good := asn1.BitString{Bytes: []byte{10, 20}, BitLength: 16} // 10.20.0.0/16
	intended := []string{"10.20.0.0/16"}
	var fams []vfFam
	switch kind {
	case "bitlen33":
		fams = []vfFam{{[]byte{0, 1, 1}, []asn1.BitString{{Bytes: []byte{10, 20, 30, 40, 50}, BitLength: 33}}}}
	case "bitlen40":
		fams = []vfFam{{[]byte{0, 1, 1}, []asn1.BitString{good, {Bytes: []byte{10, 20, 30, 40, 50}, BitLength: 40}}}}
	case "bitlen64":
		fams = []vfFam{{[]byte{0, 1, 1}, []asn1.BitString{{Bytes: []byte{1, 2, 3, 4, 5, 6, 7, 8}, BitLength: 64}}}}
	case "zero":
		fams = []vfFam{{[]byte{0, 1, 1}, []asn1.BitString{{Bytes: []byte{}, BitLength: 0}}}} // 0.0.0.0/0: legal but maximal; intended nothing
		intended = []string{"0.0.0.0/0"}
	case "family6":
		fams = []vfFam{{[]byte{0, 2, 1}, []asn1.BitString{{Bytes: []byte{0x20, 0x01, 0x0d, 0xb8}, BitLength: 32}}}}
		intended = nil
	case "mixedfamily":
		fams = []vfFam{{[]byte{0, 2, 1}, []asn1.BitString{{Bytes: []byte{0x20, 0x01}, BitLength: 16}}}, {[]byte{0, 1, 1}, []asn1.BitString{good}}}
	case "familyempty":
		// the address-family octet string is damaged: empty, or a single octet - not an IPv4 family, so nothing is granted
		fams = []vfFam{{[]byte{}, []asn1.BitString{good}}}
		intended = nil
	case "family1":
		fams = []vfFam{{[]byte{0}, []asn1.BitString{good}}}
		intended = nil
	case "family1b":
		fams = []vfFam{{[]byte{1}, []asn1.BitString{good}}}
		intended = nil
	case "emptylist":
		fams = []vfFam{{[]byte{0, 1, 1}, nil}}
		intended = nil
	case "longlist":
		var l []asn1.BitString
		for i := 0; i < 3000; i++ {
			l = append(l, asn1.BitString{Bytes: []byte{11, byte(i >> 8), byte(i)}, BitLength: 24})
		}
		fams = []vfFam{{[]byte{0, 1, 1}, l}}
		intended = []string{"11.0.0.0/8"}
	case "garbage":
		return []byte{0x30, 0x82, 0xff, 0xff, 1, 2, 3}, nil
	case "truncated":
		b, _ := asn1.Marshal([]vfFam{{[]byte{0, 1, 1}, []asn1.BitString{good}}})
		return b[:len(b)-2], nil
	case "nested":
		inner, _ := asn1.Marshal([]vfFam{{[]byte{0, 1, 1}, []asn1.BitString{good}}})
		b, _ := asn1.Marshal([][]byte{inner, inner})
		return b, nil
	case "shortbytes":
		// claims 24 bits but carries one byte
		return []byte{0x30, 0x0d, 0x30, 0x0b, 0x04, 0x03, 0x00, 0x01, 0x01, 0x30, 0x04, 0x03, 0x02, 0x00, 0x0a}, []string{"10.0.0.0/8"}
	default:
		fams = []vfFam{{[]byte{0, 1, 1}, []asn1.BitString{good}}}
	}
	b, err := asn1.Marshal(fams)
	if err != nil {
		return []byte{0x30, 0x00}, nil
	}
	return b, intended
}

func boundaryPeers(r *mrand.Rand, net string) []string {
	p, err := netip.ParsePrefix(net)
	if err != nil {
		return nil
	}
	p = p.Masked()
	first := p.Addr()
	// last address of the block
	b := first.As4()
	host := 32 - p.Bits()
	v := uint32(b[0])<<24 | uint32(b[1])<<16 | uint32(b[2])<<8 | uint32(b[3])
	var last uint32 = v
	if host >= 32 {
		last = 0xFFFFFFFF
	} else {
		last = v | (uint32(1)<<uint(host) - 1)
	}
	ip := func(x uint32) string { return netip.AddrFrom4([4]byte{byte(x >> 24), byte(x >> 16), byte(x >> 8), byte(x)}).String() }
	out := []string{ip(v), ip(last)}
	if v > 0 {
		out = append(out, ip(v-1))
	}
	if last < 0xFFFFFFFF {
		out = append(out, ip(last+1))
	}
	if last > v {
		out = append(out, ip(v+uint32(r.Uint64N(uint64(last-v)+1))))
	}
	out = append(out, ip(uint32(r.Uint64())), "2001:db8::"+fmt.Sprint(1+r.IntN(9)), "::ffff:"+ip(v), "::ffff:"+ip(uint32(r.Uint64())))
	return out
}

func genIPCertPlan(r *mrand.Rand, tier string) *vfPlan {
	p := &vfPlan{Cfg: vfCfg{TOTP: true, VIP: true, PwBackend: "counting", GroupsLDAP: chance(r, 0.4), SyncInterval: "15m",
		CertBackends: pick(r, [][]string{{"U2F", "IPCertificate"}, {"IPCertificate"}, {"U2F"}, {"password", "IPCertificate"}}), WebUIBackends: []string{"U2F", "password"}}}
	add := func(s vfStep) { p.Steps = append(p.Steps, s) }
	add(vfStep{Op: "mintsession", Sess: "adm", User: pick(r, []string{"root", "autoadmin"}), N: int64(AuthTypeU2F | AuthTypePassword)})
	var nets []string
	nblocks := 1 + r.IntN(4)
	for i := 0; i < nblocks; i++ {
		bits := r.IntN(33)
		if chance(r, 0.4) {
			bits = pick(r, []int{0, 1, 7, 8, 9, 15, 16, 17, 20, 23, 24, 25, 30, 31, 32})
		}
		a := uint32(r.Uint64())
		pf := netip.PrefixFrom(netip.AddrFrom4([4]byte{byte(a >> 24), byte(a >> 16), byte(a >> 8), byte(a)}), bits).Masked()
		nets = append(nets, pf.String())
	}
	ident := pick(r, []string{"auto1", "auto1", "auto2"})
	add(vfStep{Op: "rolecert", Sess: "adm", A: ident, L: nets, B: pick(r, []string{"user_p256_3", "user_rsa2048_4", "user_p384_2"})})
	var peers []string
	for _, n := range nets {
		peers = append(peers, boundaryPeers(r, n)...)
	}
	n := 6 + r.IntN(12)
	longAdv := 0
	for i := 0; i < n; i++ {
		switch x := r.IntN(100); {
		case x < 50:
			st := vfStep{Op: "rolerefresh", C: "cert:last:ipcert", Target: pick(r, peers), B: pick(r, []string{"user_p256_2", "user_rsa2048_3"}), N: int64(pick(r, []int{0, 0, 0, 0, 1}))}
			if chance(r, 0.2) {
				// a local proxy address as TCP peer, forwarding headers claiming an address inside the netblock
				st.Target = pick(r, []string{"127.0.0.1", "127.0.0.1", "::1", st.Target})
				st.L = append(st.L, "xff:"+peers[0])
			}
			if chance(r, 0.15) {
				st.L = append(st.L, "identity:"+pick(r, []string{"auto1", "auto2", "root"}))
			}
			add(st)
		case x < 65:
			add(vfStep{Op: "certgen", Sess: "node", User: ident, A: pick(r, []string{"", "x509"}), B: "user_p256_1", C: "cert:last:ipcert", Target: pick(r, peers)})
		case x < 80:
			add(vfStep{Op: "badcert", A: pick(r, []string{"bitlen33", "bitlen40", "bitlen64", "zero", "family6", "mixedfamily", "familyempty", "family1", "family1b", "emptylist", "longlist", "garbage", "truncated", "nested", "shortbytes"}),
				Target: pick(r, []string{"10.20.30.40", "10.21.0.1", "11.0.5.9", "203.0.113.5", "2001:db8::5", "10.20.255.255"}), B: pick(r, []string{"refresh", "refresh", "certgen"})})
		case x < 92:
			d := pick(r, []string{"1h", "24h", "240h", "1079h", "1081h", "500h"})
			if longAdv >= 2 {
				d = pick(r, []string{"1h", "10m", "24h"}) // each simulated month costs ~0.5 s of background timer work
			}
			if len(d) > 3 {
				longAdv++
			}
			add(vfStep{Op: "advance", D: d})
		default:
			add(vfStep{Op: "rolecert", Sess: "adm", A: ident, L: nets[:1+r.IntN(len(nets))]})
		}
	}
	return p
}
