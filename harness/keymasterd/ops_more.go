package main

// More plan vocabulary: harness-minted sessions carrying arbitrary factor
// bits, CLI web-auth tokens, automation (role-requesting) certificates.

import (
	"encoding/base64"
	"fmt"
	"net/url"
	"regexp"
	"strconv"
	"strings"
	"time"
)

var reJWTInPage = regexp.MustCompile(`eyJ[A-Za-z0-9_-]+\.[A-Za-z0-9_-]+\.[A-Za-z0-9_-]+`)

func init() {
	// a session whose cookie carries exactly the given factor bits, minted by
	// the server's own signing code ("session cookie carrying any set of
	// factor bits" of the C01 quantifier)
	vfExtraOps["mintsession"] = func(w *vfWorld, st vfStep, p *vfPrepared) *vfPrepared {
		p.env = func() {
			life := 16 * time.Hour
			if st.D != "" {
				if d, err := time.ParseDuration(st.D); err == nil && d > 0 {
					life = d
				}
			}
			v, err := w.state.genNewSerializedAuthJWT(st.User, int(st.N), int64(life/time.Second))
			if err != nil {
				w.logf("mintsession failed: %v", err)
				return
			}
			s := w.session(st.Sess)
			now := time.Unix(time.Now().Unix(), 0)
			validFrom := now
			if strings.HasPrefix(st.A, "notyet:") {
				// a session of the deployment (same key, e.g. a sibling instance with a fast clock) that is not valid yet
				if d, err := time.ParseDuration(st.A[len("notyet:"):]); err == nil && d > 0 {
					validFrom = now.Add(d)
					if v2 := vfResignJWT(v, "ca_rsa", func(m map[string]any) { m["nbf"] = validFrom.Unix() }); v2 != "" {
						v = v2
					}
				}
			}
			if strings.HasPrefix(st.A, "iss:") {
				// a session of ANOTHER deployment that shares the signing key (issuer and audience name that one):
				// not a credential here, so the model does not know it
				var n int
				fmt.Sscanf(st.A[4:], "%d", &n)
				if v2 := vfResignJWT(v, "ca_rsa", func(m map[string]any) { m["iss"] = vfForeignIssuer(n); m["aud"] = []string{vfForeignIssuer(n)} }); v2 != "" {
					s.Cookies[authCookieName] = v2
					w.fault("net.peer")
				}
				return
			}
			s.Cookies[authCookieName] = v
			w.model.lineages++
			w.model.cookies[v] = &vfCookieInfo{Subject: st.User, Proven: int(st.N), Carried: int(st.N), AuthAt: validFrom,
				Exp: now.Add(life), Kind: "session", Lineage: w.model.lineages}
			if w.prop == "C04" || w.prop == "C12" {
				w.model.addArt(&vfArtefact{Kind: "cookie", Value: v, Subject: st.User, Exp: now.Add(life), AuthAt: validFrom})
			}
		}
		return p
	}
	vfExtraOps["clishow"] = func(w *vfWorld, st vfStep, p *vfPrepared) *vfPrepared {
		s := w.session(st.Sess)
		r := w.baseReq(s, "GET", "/showAuthToken")
		r.Header["Accept"] = "text/html"
		p.call = w.prepare(r)
		subject := w.subjectOf(s)
		p.after = func(resp *vfResp) {
			if resp.Code != 200 {
				return
			}
			if tok := reJWTInPage.Find(resp.Body); tok != nil {
				pl := vfJWTPayload(string(tok))
				a := &vfArtefact{Kind: "clitoken", Value: string(tok), Subject: subject, AuthAt: time.Now()}
				if pl != nil {
					a.Exp = time.Unix(jnum(pl, "exp"), 0)
					if jstr(pl, "sub") != subject {
						w.violate("C05", "clitoken-wrong-subject", "clitoken-wrong-subject", fmt.Sprintf("CLI token for %q shown to session of %q", jstr(pl, "sub"), subject))
					}
				}
				w.model.addArt(a)
				w.probe("clitoken-shown")
			}
		}
		return p
	}
	// A: token artefact ref; Target: name of the (CLI side) session receiving the cookie
	vfExtraOps["clisend"] = func(w *vfWorld, st vfStep, p *vfPrepared) *vfPrepared {
		s := w.session(st.Sess)
		a := w.art(st.A)
		if a == nil {
			return nil
		}
		subject := w.subjectOf(s)
		r := w.baseReq(s, "GET", "/sendAuthDocument?port=12345&token="+url.QueryEscape(a.Value))
		p.call = w.prepare(r)
		switch {
		case a.Kind != "clitoken" || a.Forged != "":
			p.intent.Why = map[int]string{AuthTypeWebauthForCLI: "level-not-proven"}
		case a.Subject != subject:
			p.intent.Why = map[int]string{AuthTypeWebauthForCLI: "level-for-other-user"}
		case time.Now().After(a.Exp):
			p.intent.Why = map[int]string{AuthTypeWebauthForCLI: "expired-accepted"}
		default:
			p.intent.Claims = append(p.intent.Claims, vfClaim{AuthTypeWebauthForCLI, subject})
			// the redeeming browser session has to hold what the web UI demands, like the one the token was shown to
			if r.Basic == nil && s.Cert == "" {
				need := 0
				for _, b := range w.cfg.WebUIBackends {
					need |= vfCertBackendBits[b]
				}
				if ci := w.model.cookies[r.Cookies[authCookieName]]; ci != nil && ci.Carried&need == 0 {
					p.intent.Claims = p.intent.Claims[:len(p.intent.Claims)-1]
					p.intent.Why = map[int]string{AuthTypeWebauthForCLI: "redeemed-below-webui-level"}
				}
			}
		}
		p.after = func(resp *vfResp) {
			if resp.Code != 308 {
				return
			}
			loc, err := url.Parse(resp.Header.Get("Location"))
			if err != nil {
				return
			}
			if v := loc.Query().Get("auth_cookie"); v != "" && st.Target != "" {
				w.session(st.Target).Cookies[authCookieName] = v
				w.probe("cli-session-created")
			}
		}
		return p
	}
	// A: identity; L: requestor netblocks; B: key; C: credential ("" session, cert:<ref>)
	vfExtraOps["rolecert"] = func(w *vfWorld, st vfStep, p *vfPrepared) *vfPrepared {
		s := w.session(st.Sess)
		keyName := st.B
		if keyName == "" {
			keyName = "user_p256_1"
		}
		key := vfKey(keyName)
		form := url.Values{"identity": {st.A}, "pubkey": {base64.RawURLEncoding.EncodeToString(key.pkixDER())},
			"target_netblock": {"10.0.0.0/8"}}
		for _, n := range st.L {
			if strings.HasPrefix(n, "fwd:") || strings.HasPrefix(n, "peer:") || strings.HasPrefix(n, "precookie:") {
				continue
			}
			form.Add("requestor_netblock", n)
		}
		if st.D != "" {
			form.Set("duration", st.D) // the documented optional field
		}
		method := "POST"
		if st.N == 1 {
			method = "GET"
		}
		r := w.baseReq(s, method, "/v1/getRoleRequestingCert")
		r.Form = form
		if strings.HasPrefix(st.C, "cert:") {
			a := w.art(st.C[5:])
			if a == nil || a.Cert == nil {
				return nil
			}
			r.Cookies = map[string]string{}
			r.Cert = a.Cert
		}
		p.call = w.prepare(r)
		p.intent.Op = "rolecert"
		p.intent.Role = &vfRoleReq{Identity: st.A, Nets: st.L, KeyName: keyName, Actor: w.subjectOf(s)}
		if r.Cert != nil {
			if a := w.model.artByCert(r.Cert); a != nil {
				p.intent.Role.Actor = a.Subject
			}
		}
		return p
	}
	// C: cert ref (required); Target: peer address; B: key
	vfExtraOps["rolerefresh"] = func(w *vfWorld, st vfStep, p *vfPrepared) *vfPrepared {
		a := w.art(strings.TrimPrefix(st.C, "cert:"))
		if a == nil || a.Cert == nil {
			return nil
		}
		keyName := st.B
		if keyName == "" {
			keyName = "user_p256_2"
		}
		key := vfKey(keyName)
		r := &vfReq{Method: "POST", Path: "/v1/refreshRoleRequestingCert", Cert: a.Cert, Peer: st.Target, Header: map[string]string{},
			Form: url.Values{"pubkey": {base64.RawURLEncoding.EncodeToString(key.pkixDER())}}}
		if st.N == 1 {
			r.Method = "GET"
		}
		// what a hostile client can add: forwarding headers naming another address, extra form fields
		if x := opt(st.L, "xff", ""); x != "" {
			r.Header["X-Forwarded-For"] = x
			r.Header["X-Real-Ip"] = x
			r.Header["X-Real-IP"] = x
		}
		if id := opt(st.L, "identity", ""); id != "" {
			r.Form.Set("identity", id)
			r.Form.Set("requestor_netblock", "0.0.0.0/0")
			r.Form.Set("target_netblock", "0.0.0.0/0")
		}
		p.call = w.prepare(r)
		p.intent.Op = "rolerefresh"
		p.intent.Role = &vfRoleReq{Identity: a.Subject, Nets: a.Nets, KeyName: keyName, Refresh: true, From: a, Peer: st.Target}
		return p
	}
	// every later request of the session presents this client certificate in its TLS handshake ("" = none)
	vfExtraOps["attachcert"] = func(w *vfWorld, st vfStep, p *vfPrepared) *vfPrepared {
		p.env = func() { w.session(st.Sess).Cert = st.C }
		return p
	}
	// move a session to another peer address
	vfExtraOps["setpeer"] = func(w *vfWorld, st vfStep, p *vfPrepared) *vfPrepared {
		p.env = func() { w.session(st.Sess).Peer = st.Target; w.fault("net.peer") }
		return p
	}
}

type vfRoleReq struct {
	Identity string
	Nets     []string
	KeyName  string
	Actor    string
	Refresh  bool
	From     *vfArtefact
	Peer     string
}

func (w *vfWorld) subjectOf(s *vfSession) string {
	if ci := w.model.cookies[s.Cookies[authCookieName]]; ci != nil {
		return ci.Subject
	}
	return ""
}

// observeRole judges the automation-certificate endpoints (C03 lifetime, C08
// authorisation, C11 netblocks).  Called for every response of a rolecert /
// rolerefresh step.
func (m *vfModel) observeRole(ctx *vfReqCtx, in *vfIntent, resp *vfResp) {
	w := m.w
	rr := in.Role
	iss := vfParseIssued(resp.Body)
	issued := resp.Code == 200 && iss != nil && iss.X509 != nil
	if !issued {
		w.probe("rolecert-refused")
		return
	}
	w.probe("rolecert-issued")
	c := iss.X509
	if w.sealed {
		w.violate("C09", "signed-while-sealed", "signed-while-sealed:rolecert", "automation certificate issued while sealed")
	}
	// C03: never more than 45 days
	m.checkLifetime(ctx, in, iss, nil, 45*24*time.Hour, false)
	// C11/C02-like binding: identity and key
	if c.Subject.CommonName != rr.Identity {
		w.violate("C11", "identity-changed", "identity-changed", fmt.Sprintf("automation certificate names %q, requested/presented identity %q", c.Subject.CommonName, rr.Identity))
	}
	nets, err := vfExtractNets(c)
	art := &vfArtefact{Kind: "ipcert", Subject: c.Subject.CommonName, Cert: c, AuthAt: time.Now(), Exp: c.NotAfter, KeyName: rr.KeyName, Nets: nets}
	m.addArt(art)
	want := vfCanonNets(rr.Nets)
	if err == nil && rr.Refresh && rr.From != nil && rr.From.Forged != "" {
		// the certificate presented was made by the harness with a deliberately unusual extension: its recorded netblocks
		// are the *bound* on the access it may ever give (e.g. 3000 /24 blocks inside 11.0.0.0/8), not the list itself.
		// A refresh of it must stay inside that bound ("never widen access"); equality is judged for minted certificates
		for _, n := range nets {
			if !vfNetWithinAny(n, rr.From.Nets) {
				w.violate("C11", "netblocks-changed", "netblocks-widened:refresh",
					fmt.Sprintf("refresh of a certificate with a damaged / unusual extension (%s) yielded %s, outside %v", rr.From.Forged, n, rr.From.Nets))
				break
			}
		}
	} else if err != nil {
		w.violate("C11", "netblocks-changed", "netblocks-unreadable", "minted certificate's netblocks cannot be read back: "+err.Error())
	} else if strings.Join(vfCanonNets(nets), ",") != strings.Join(want, ",") {
		cls := "netblocks-changed"
		w.violate("C11", cls, cls+":"+map[bool]string{true: "refresh", false: "mint"}[rr.Refresh],
			fmt.Sprintf("netblocks read back %v, minted with %v", vfCanonNets(nets), want))
	}
	if rr.Refresh {
		if !vfPeerInNets(rr.Peer, rr.From.Nets) {
			w.violate("C11", "refresh-from-outside", "refresh-from-outside",
				fmt.Sprintf("certificate for %v refreshed from peer %s", rr.From.Nets, rr.Peer))
		}
		if time.Now().After(rr.From.Exp) {
			w.violate("C11", "refresh-with-expired", "refresh-with-expired", "expired automation certificate refreshed")
		}
	} else {
		// C08: only an administrator or automation administrator, only for configured identities
		isAdmin, certain := w.adminTruth(rr.Actor)
		okActor := isAdmin || rr.Actor == "autoadmin"
		okIdentity := rr.Identity == "auto1" || rr.Identity == "auto2" || (rr.Identity == "auto3" && w.cfg.GroupsLDAP)
		if (!okActor && certain) || !okIdentity {
			w.violate("C08", "automation-cert-unauthorised", fmt.Sprintf("automation-cert-unauthorised:actor=%v:identity=%v", okActor, okIdentity),
				fmt.Sprintf("automation certificate for %q minted by %q", rr.Identity, rr.Actor))
		}
	}
	_ = strconv.Itoa
}
