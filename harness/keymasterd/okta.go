package main

// Simulated Okta authentication API.  The real lib/authenticators/okta code
// talks to https://<domain>.okta.com through http.DefaultClient; the harness
// installs this RoundTripper as its transport, so password checks, OTP
// verification and push polling of the real authenticator (and the real
// /api/v0/okta* handlers) run against a deterministic service with the usual
// faults (down, erroring, slow) and a device the plan can make approve or deny.

import (
	"bytes"
	"encoding/json"
	"errors"
	"fmt"
	"io"
	"net/http"
	"strings"
	"time"
)

type simOktaState struct {
	Token   string
	User    string
	Expires time.Time
	Push    string // "" none | waiting | approved | rejected
	PushAt  time.Time
}

type simOkta struct {
	w      *vfWorld
	Mode   string // up | down | error
	seq    int
	States map[string]*simOktaState // by state token
	Used   map[string]bool          // accepted one-time codes
	Calls  int
}

func newSimOkta(w *vfWorld) *simOkta {
	return &simOkta{w: w, Mode: "up", States: map[string]*simOktaState{}, Used: map[string]bool{}}
}

// the code the user's Okta Verify app shows
func vfOktaCode(user string, t time.Time) int { return vfVipCode("okta/"+user, t) }

func (o *simOkta) reply(req *http.Request, code int, v any) *http.Response {
	var b []byte
	if v != nil {
		b, _ = json.Marshal(v)
	}
	return &http.Response{StatusCode: code, Status: fmt.Sprintf("%d %s", code, http.StatusText(code)), Proto: "HTTP/1.1", ProtoMajor: 1, ProtoMinor: 1,
		Header: http.Header{"Content-Type": {"application/json"}}, Body: io.NopCloser(bytes.NewReader(b)), Request: req, ContentLength: int64(len(b))}
}

func (o *simOkta) RoundTrip(req *http.Request) (*http.Response, error) {
	w := o.w
	if !strings.HasSuffix(req.URL.Host, ".okta.com") {
		return nil, errors.New("sim: no route to host " + req.URL.Host)
	}
	w.sched.park("okta:" + req.URL.Path)
	o.Calls++
	switch o.Mode {
	case "down":
		w.fault("okta.down")
		time.Sleep(3 * time.Second)
		return nil, errors.New("sim: dial tcp: i/o timeout")
	case "error":
		w.fault("okta.error")
		return o.reply(req, 500, map[string]string{"errorCode": "E0000009"}), nil
	}
	body, _ := io.ReadAll(req.Body)
	ctx := w.reqCtx()
	switch {
	case req.URL.Path == "/api/v1/authn":
		var in struct{ Username, Password string }
		json.Unmarshal(body, &in)
		w.pwBackendCall(in.Username)
		pw, ok := w.dirsim.Password[strings.ToLower(in.Username)] // Okta logins are not case sensitive
		valid := ok && in.Password != "" && pw == in.Password
		if ctx != nil {
			ctx.pwChecks = append(ctx.pwChecks, vfPwCheck{User: in.Username, OK: valid})
			ctx.dirAnswered = true
		}
		if !valid {
			w.probe("okta-password-rejected")
			return o.reply(req, 401, map[string]string{"errorCode": "E0000004"}), nil
		}
		w.probe("okta-password-accepted")
		o.seq++
		st := &simOktaState{Token: fmt.Sprintf("00st%d", o.seq), User: in.Username, Expires: time.Now().Add(5 * time.Minute)}
		o.States[st.Token] = st
		type factor struct {
			Id         string `json:"id"`
			FactorType string `json:"factorType"`
			Provider   string `json:"provider"`
			VendorName string `json:"vendorName"`
		}
		return o.reply(req, 200, map[string]any{
			"stateToken": st.Token, "expiresAt": st.Expires.UTC().Format(time.RFC3339), "status": "MFA_REQUIRED",
			"_embedded": map[string]any{
				"user": map[string]any{"id": "00u-" + in.Username, "profile": map[string]string{"login": in.Username}},
				"factors": []factor{
					{"sms-" + in.Username, "sms", "OKTA", "OKTA"},
					{"totp-" + in.Username, "token:software:totp", "OKTA", "OKTA"},
					{"push-" + in.Username, "push", "OKTA", "OKTA"},
				}},
		}), nil
	case strings.HasPrefix(req.URL.Path, "/api/v1/authn/factors/") && strings.HasSuffix(req.URL.Path, "/verify"):
		id := strings.TrimSuffix(strings.TrimPrefix(req.URL.Path, "/api/v1/authn/factors/"), "/verify")
		var in struct{ StateToken, PassCode string }
		json.Unmarshal(body, &in)
		if ctx != nil {
			ctx.backendTxns++
		}
		st := o.States[in.StateToken]
		if st == nil || time.Now().After(st.Expires) {
			return o.reply(req, 401, map[string]string{"errorCode": "E0000011"}), nil // invalid token
		}
		kind, user, _ := strings.Cut(id, "-")
		if user != st.User {
			return o.reply(req, 403, map[string]string{"errorCode": "E0000068"}), nil
		}
		switch kind {
		case "totp":
			now := time.Now()
			ok := false
			for _, d := range []time.Duration{0, -30 * time.Second} {
				if fmt.Sprintf("%06d", vfOktaCode(user, now.Add(d))) == in.PassCode {
					ok = true
				}
			}
			key := user + "/" + in.PassCode
			if ok && o.Used[key] {
				ok = false
			}
			if !ok {
				return o.reply(req, 403, map[string]string{"errorCode": "E0000068"}), nil
			}
			o.Used[key] = true
			w.probe("okta-otp-accepted")
			if ctx != nil {
				ctx.truth = append(ctx.truth, vfClaim{Factor: AuthTypeOkta2FA, User: user})
			}
			return o.reply(req, 200, map[string]string{"status": "SUCCESS"}), nil
		case "push":
			if st.Push == "" {
				st.Push, st.PushAt = "waiting", time.Now()
				if ctx != nil {
					ctx.pushStartedFor = append(ctx.pushStartedFor, user)
				}
			}
			if st.Push == "waiting" && time.Since(st.PushAt) > 2*time.Minute {
				st.Push = "timeout"
			}
			switch st.Push {
			case "approved":
				w.probe("okta-push-approved-seen")
				if ctx != nil {
					ctx.truth = append(ctx.truth, vfClaim{Factor: AuthTypeOkta2FA, User: user})
				}
				return o.reply(req, 200, map[string]string{"status": "SUCCESS"}), nil
			case "waiting":
				return o.reply(req, 200, map[string]string{"status": "MFA_CHALLENGE", "factorResult": "WAITING"}), nil
			case "timeout":
				return o.reply(req, 200, map[string]string{"status": "MFA_CHALLENGE", "factorResult": "TIMEOUT"}), nil
			default:
				return o.reply(req, 200, map[string]string{"status": "MFA_CHALLENGE", "factorResult": "REJECTED"}), nil
			}
		}
		return o.reply(req, 403, map[string]string{"errorCode": "E0000068"}), nil
	}
	return o.reply(req, 404, nil), nil
}

// the user's phone answers the newest waiting push of that user
func (o *simOkta) deviceAnswer(user string, approve bool) bool {
	var best *simOktaState
	for _, st := range o.States {
		if st.User == user && st.Push == "waiting" {
			if best == nil || st.PushAt.After(best.PushAt) || (st.PushAt.Equal(best.PushAt) && st.Token > best.Token) {
				best = st
			}
		}
	}
	if best == nil {
		return false
	}
	if approve {
		best.Push = "approved"
	} else {
		best.Push = "rejected"
	}
	return true
}

func init() {
	// A: cur|prev|wrong|other:<user>
	vfExtraOps["oktaotp"] = func(w *vfWorld, st vfStep, p *vfPrepared) *vfPrepared {
		s := w.session(st.Sess)
		subject := w.subjectOf(s)
		who := subject
		code := ""
		switch {
		case st.A == "wrong":
			code = "000001"
		case st.A == "prev":
			code = fmt.Sprintf("%06d", vfOktaCode(who, time.Now().Add(-30*time.Second)))
		case strings.HasPrefix(st.A, "other:"):
			who = st.A[6:]
			code = fmt.Sprintf("%06d", vfOktaCode(who, time.Now()))
		default:
			code = fmt.Sprintf("%06d", vfOktaCode(who, time.Now()))
		}
		r := w.baseReq(s, "POST", "/api/v0/okta2FAAuth")
		r.Form = map[string][]string{"OTP": {code}}
		p.call = w.prepare(r)
		p.intent.Op = "oktaotp"
		return p
	}
	vfExtraOps["oktapushstart"] = func(w *vfWorld, st vfStep, p *vfPrepared) *vfPrepared {
		p.call = w.prepare(w.baseReq(w.session(st.Sess), "POST", "/api/v0/oktaPushStart"))
		p.intent.Op = "oktapushstart"
		return p
	}
	vfExtraOps["oktapoll"] = func(w *vfWorld, st vfStep, p *vfPrepared) *vfPrepared {
		p.call = w.prepare(w.baseReq(w.session(st.Sess), "GET", "/api/v0/oktaPollCheck"))
		p.intent.Op = "oktapoll"
		return p
	}
	vfExtraOps["okta_device"] = func(w *vfWorld, st vfStep, p *vfPrepared) *vfPrepared {
		p.env = func() {
			if w.okta != nil && w.okta.deviceAnswer(st.User, st.A != "deny") {
				if st.A == "deny" {
					w.fault("push.deny")
				} else {
					w.fault("push.approve")
				}
			}
		}
		return p
	}
	vfExtraOps["okta_server"] = func(w *vfWorld, st vfStep, p *vfPrepared) *vfPrepared {
		p.env = func() {
			if w.okta != nil {
				w.okta.Mode = st.A
			}
		}
		return p
	}
}
