package main

// Simulated Okta authentication API.  The real lib/authenticators/okta code
// talks to https://<domain>.okta.com through http.DefaultClient; the harness
// installs this RoundTripper as its transport, so password checks, OTP
// verification and push polling of the real authenticator (and the real
// /api/v0/okta* handlers) run against a deterministic service with the usual
// faults (down, erroring, slow) and a device the plan can make approve or deny.

import (
	"crypto/x509"
	"net/url"
	"bytes"
	"encoding/json"
	"errors"
	"fmt"
	"io"
	"net/http"
	"strings"
	"time"
)

type simOktaState struct {
	Token   string
	User    string
	Expires time.Time
	Push    string // "" none | waiting | approved | rejected
	PushAt  time.Time
}

type simOkta struct {
	w      *vfWorld
	Mode   string // up | down | error
	seq    int
	States map[string]*simOktaState // by state token
	Used   map[string]bool          // accepted one-time codes
	Calls  int
	StsMode string
}

func newSimOkta(w *vfWorld) *simOkta {
	return &simOkta{w: w, Mode: "up", States: map[string]*simOktaState{}, Used: map[string]bool{}}
}

// the code the user's Okta Verify app shows
func vfOktaCode(user string, t time.Time) int { return vfVipCode("okta/"+user, t) }

func (o *simOkta) reply(req *http.Request, code int, v any) *http.Response {
	var b []byte
	if v != nil {
		b, _ = json.Marshal(v)
	}
	return &http.Response{StatusCode: code, Status: fmt.Sprintf("%d %s", code, http.StatusText(code)), Proto: "HTTP/1.1", ProtoMajor: 1, ProtoMinor: 1,
		Header: http.Header{"Content-Type": {"application/json"}}, Body: io.NopCloser(bytes.NewReader(b)), Request: req, ContentLength: int64(len(b))}
}

func (o *simOkta) RoundTrip(req *http.Request) (*http.Response, error) {
	w := o.w
	if req.URL.Host == "idp.sim" && w.idp != nil {
		return w.idp.roundTrip(req)
	}
	if strings.HasPrefix(req.URL.Host, "sts.") && strings.HasSuffix(req.URL.Host, ".amazonaws.com") {
		return o.stsRoundTrip(req)
	}
	if !strings.HasSuffix(req.URL.Host, ".okta.com") {
		return nil, errors.New("sim: no route to host " + req.URL.Host)
	}
	w.sched.park("okta:" + req.URL.Path)
	o.Calls++
	switch o.Mode {
	case "down":
		w.fault("okta.down")
		time.Sleep(3 * time.Second)
		return nil, errors.New("sim: dial tcp: i/o timeout")
	case "error":
		w.fault("okta.error")
		return o.reply(req, 500, map[string]string{"errorCode": "E0000009"}), nil
	}
	body, _ := io.ReadAll(req.Body)
	ctx := w.reqCtx()
	switch {
	case req.URL.Path == "/api/v1/authn":
		var in struct{ Username, Password string }
		json.Unmarshal(body, &in)
		w.pwBackendCall(in.Username)
		pw, ok := w.dirsim.Password[strings.ToLower(in.Username)] // Okta logins are not case sensitive
		valid := ok && in.Password != "" && pw == in.Password
		if ctx != nil {
			ctx.pwChecks = append(ctx.pwChecks, vfPwCheck{User: in.Username, OK: valid})
			ctx.dirAnswered = true
		}
		if !valid {
			w.probe("okta-password-rejected")
			return o.reply(req, 401, map[string]string{"errorCode": "E0000004"}), nil
		}
		w.probe("okta-password-accepted")
		o.seq++
		st := &simOktaState{Token: fmt.Sprintf("00st%d", o.seq), User: in.Username, Expires: time.Now().Add(5 * time.Minute)}
		o.States[st.Token] = st
		type factor struct {
			Id         string `json:"id"`
			FactorType string `json:"factorType"`
			Provider   string `json:"provider"`
			VendorName string `json:"vendorName"`
		}
		return o.reply(req, 200, map[string]any{
			"stateToken": st.Token, "expiresAt": st.Expires.UTC().Format(time.RFC3339), "status": "MFA_REQUIRED",
			"_embedded": map[string]any{
				"user": map[string]any{"id": "00u-" + in.Username, "profile": map[string]string{"login": in.Username}},
				"factors": []factor{
					{"sms-" + in.Username, "sms", "OKTA", "OKTA"},
					{"totp-" + in.Username, "token:software:totp", "OKTA", "OKTA"},
					{"push-" + in.Username, "push", "OKTA", "OKTA"},
				}},
		}), nil
	case strings.HasPrefix(req.URL.Path, "/api/v1/authn/factors/") && strings.HasSuffix(req.URL.Path, "/verify"):
		id := strings.TrimSuffix(strings.TrimPrefix(req.URL.Path, "/api/v1/authn/factors/"), "/verify")
		var in struct{ StateToken, PassCode string }
		json.Unmarshal(body, &in)
		if ctx != nil {
			ctx.backendTxns++
		}
		st := o.States[in.StateToken]
		if st == nil || time.Now().After(st.Expires) {
			return o.reply(req, 401, map[string]string{"errorCode": "E0000011"}), nil // invalid token
		}
		kind, user, _ := strings.Cut(id, "-")
		if user != st.User {
			return o.reply(req, 403, map[string]string{"errorCode": "E0000068"}), nil
		}
		switch kind {
		case "totp":
			now := time.Now()
			ok := false
			for _, d := range []time.Duration{0, -30 * time.Second} {
				if fmt.Sprintf("%06d", vfOktaCode(user, now.Add(d))) == in.PassCode {
					ok = true
				}
			}
			key := user + "/" + in.PassCode
			if ok && o.Used[key] {
				ok = false
			}
			if !ok {
				return o.reply(req, 403, map[string]string{"errorCode": "E0000068"}), nil
			}
			o.Used[key] = true
			w.probe("okta-otp-accepted")
			if ctx != nil {
				ctx.truth = append(ctx.truth, vfClaim{Factor: AuthTypeOkta2FA, User: user})
			}
			return o.reply(req, 200, map[string]string{"status": "SUCCESS"}), nil
		case "push":
			if st.Push == "" {
				st.Push, st.PushAt = "waiting", time.Now()
				if ctx != nil {
					ctx.pushStartedFor = append(ctx.pushStartedFor, user)
				}
			}
			if st.Push == "waiting" && time.Since(st.PushAt) > 2*time.Minute {
				st.Push = "timeout"
			}
			switch st.Push {
			case "approved":
				w.probe("okta-push-approved-seen")
				if ctx != nil {
					ctx.truth = append(ctx.truth, vfClaim{Factor: AuthTypeOkta2FA, User: user})
				}
				return o.reply(req, 200, map[string]string{"status": "SUCCESS"}), nil
			case "waiting":
				return o.reply(req, 200, map[string]string{"status": "MFA_CHALLENGE", "factorResult": "WAITING"}), nil
			case "timeout":
				return o.reply(req, 200, map[string]string{"status": "MFA_CHALLENGE", "factorResult": "TIMEOUT"}), nil
			default:
				return o.reply(req, 200, map[string]string{"status": "MFA_CHALLENGE", "factorResult": "REJECTED"}), nil
			}
		}
		return o.reply(req, 403, map[string]string{"errorCode": "E0000068"}), nil
	}
	return o.reply(req, 404, nil), nil
}

// the user's phone answers the newest waiting push of that user
func (o *simOkta) deviceAnswer(user string, approve bool) bool {
	var best *simOktaState
	for _, st := range o.States {
		if st.User == user && st.Push == "waiting" {
			if best == nil || st.PushAt.After(best.PushAt) || (st.PushAt.Equal(best.PushAt) && st.Token > best.Token) {
				best = st
			}
		}
	}
	if best == nil {
		return false
	}
	if approve {
		best.Push = "approved"
	} else {
		best.Push = "rejected"
	}
	return true
}

func init() {
	// A: cur|prev|wrong|other:<user>
	vfExtraOps["oktaotp"] = func(w *vfWorld, st vfStep, p *vfPrepared) *vfPrepared {
		s := w.session(st.Sess)
		subject := w.subjectOf(s)
		who := subject
		code := ""
		switch {
		case st.A == "wrong":
			code = "000001"
		case st.A == "prev":
			code = fmt.Sprintf("%06d", vfOktaCode(who, time.Now().Add(-30*time.Second)))
		case strings.HasPrefix(st.A, "other:"):
			who = st.A[6:]
			code = fmt.Sprintf("%06d", vfOktaCode(who, time.Now()))
		default:
			code = fmt.Sprintf("%06d", vfOktaCode(who, time.Now()))
		}
		r := w.baseReq(s, "POST", "/api/v0/okta2FAAuth")
		r.Form = map[string][]string{"OTP": {code}}
		p.call = w.prepare(r)
		p.intent.Op = "oktaotp"
		return p
	}
	vfExtraOps["oktapushstart"] = func(w *vfWorld, st vfStep, p *vfPrepared) *vfPrepared {
		p.call = w.prepare(w.baseReq(w.session(st.Sess), "POST", "/api/v0/oktaPushStart"))
		p.intent.Op = "oktapushstart"
		return p
	}
	vfExtraOps["oktapoll"] = func(w *vfWorld, st vfStep, p *vfPrepared) *vfPrepared {
		p.call = w.prepare(w.baseReq(w.session(st.Sess), "GET", "/api/v0/oktaPollCheck"))
		p.intent.Op = "oktapoll"
		return p
	}
	vfExtraOps["okta_device"] = func(w *vfWorld, st vfStep, p *vfPrepared) *vfPrepared {
		p.env = func() {
			if w.okta != nil && w.okta.deviceAnswer(st.User, st.A != "deny") {
				if st.A == "deny" {
					w.fault("push.deny")
				} else {
					w.fault("push.approve")
				}
			}
		}
		return p
	}
	vfExtraOps["okta_server"] = func(w *vfWorld, st vfStep, p *vfPrepared) *vfPrepared {
		p.env = func() {
			if w.okta != nil {
				w.okta.Mode = st.A
			}
		}
		return p
	}
}

// ---- federated login: a simulated OAuth2 identity provider ---------------------------------------
// (token and userinfo endpoints reached by golang.org/x/oauth2 through http.DefaultClient)

type simIdP struct {
	w      *vfWorld
	Mode   string            // up | down | error
	Codes  map[string]string // authorization code -> user who authenticated at the provider (one-time)
	Tokens map[string]string // access token -> user
	seq    int
	Style  string // what the userinfo document carries: login | email
}

func newSimIdP(w *vfWorld) *simIdP {
	return &simIdP{w: w, Mode: "up", Codes: map[string]string{}, Tokens: map[string]string{}, Style: "login"}
}

func (i *simIdP) roundTrip(req *http.Request) (*http.Response, error) {
	w := i.w
	w.sched.park("idp:" + req.URL.Path)
	o := w.okta
	switch i.Mode {
	case "down":
		w.fault("idp.down")
		time.Sleep(3 * time.Second)
		return nil, errors.New("sim: dial tcp: i/o timeout")
	case "error":
		w.fault("idp.error")
		return o.reply(req, 500, map[string]string{"error": "server_error"}), nil
	}
	ctx := w.reqCtx()
	switch req.URL.Path {
	case "/token":
		body, _ := io.ReadAll(req.Body)
		form, _ := url.ParseQuery(string(body))
		id, secret, hasBasic := req.BasicAuth()
		if !hasBasic {
			id, secret = form.Get("client_id"), form.Get("client_secret")
		}
		if uid, _ := url.QueryUnescape(id); uid != "km-client" || secret != "km-client-secret" {
			return o.reply(req, 401, map[string]string{"error": "invalid_client"}), nil
		}
		user, ok := i.Codes[form.Get("code")]
		if !ok || form.Get("grant_type") != "authorization_code" {
			return o.reply(req, 400, map[string]string{"error": "invalid_grant"}), nil
		}
		delete(i.Codes, form.Get("code")) // codes are one-time
		i.seq++
		tok := fmt.Sprintf("idp-at-%d", i.seq)
		i.Tokens[tok] = user
		return o.reply(req, 200, map[string]any{"access_token": tok, "token_type": "Bearer", "expires_in": 3600}), nil
	case "/userinfo":
		tok := strings.TrimPrefix(req.Header.Get("Authorization"), "Bearer ")
		user, ok := i.Tokens[tok]
		if !ok {
			return o.reply(req, 401, map[string]string{"error": "invalid_token"}), nil
		}
		if ctx != nil {
			ctx.truth = append(ctx.truth, vfClaim{Factor: AuthTypeFederated, User: user})
		}
		w.probe("idp-userinfo-served")
		if i.Style == "email" {
			return o.reply(req, 200, map[string]any{"name": "Display " + user, "email": strings.ToUpper(user[:1]) + user[1:] + "@mail.sim"}), nil
		}
		return o.reply(req, 200, map[string]any{"name": "Display " + user, "login": user, "email": user + "@mail.sim"}), nil
	}
	return o.reply(req, 404, nil), nil
}

func init() {
	// the browser is sent to the provider: GET /auth/oauth2/login (the jar keeps the redirect cookie, the session the state)
	vfExtraOps["fedlogin"] = func(w *vfWorld, st vfStep, p *vfPrepared) *vfPrepared {
		s := w.session(st.Sess)
		r := w.baseReq(s, "GET", "/auth/oauth2/login")
		p.call = w.prepare(r)
		p.intent.Op = "fedlogin"
		p.after = func(resp *vfResp) {
			if resp.Code != 302 {
				return
			}
			if loc, err := url.Parse(resp.Header.Get("Location")); err == nil {
				s.FedState = loc.Query().Get("state")
				w.probe("federated-login-started")
			}
		}
		return p
	}
	// the user authenticates at the provider, which hands the browser a code.  User: who authenticated there
	vfExtraOps["idp_auth"] = func(w *vfWorld, st vfStep, p *vfPrepared) *vfPrepared {
		p.env = func() {
			if w.idp == nil {
				return
			}
			w.idp.seq++
			code := fmt.Sprintf("idp-code-%d", w.idp.seq)
			w.idp.Codes[code] = st.User
			w.idp.Style = "login"
			if st.A == "email" {
				w.idp.Style = "email"
			}
			w.session(st.Sess).FedCode = code
		}
		return p
	}
	// the browser comes back: A: "" | replay (a code already used) | wrongstate | code:<sess> (code handed to another browser) | nocookie
	vfExtraOps["fedcallback"] = func(w *vfWorld, st vfStep, p *vfPrepared) *vfPrepared {
		s := w.session(st.Sess)
		code, state := s.FedCode, s.FedState
		switch {
		case st.A == "replay":
			code = s.FedCodeUsed
		case st.A == "wrongstate":
			state = "not-the-state"
		case strings.HasPrefix(st.A, "code:"):
			code = w.session(st.A[5:]).FedCode
		}
		if code == "" {
			return nil
		}
		r := w.baseReq(s, "GET", "/auth/oauth2/callback?code="+url.QueryEscape(code)+"&state="+url.QueryEscape(state))
		if st.A == "nocookie" {
			delete(r.Cookies, "oauth2_redir")
		}
		p.call = w.prepare(r)
		p.intent.Op = "fedcallback"
		p.after = func(resp *vfResp) {
			if code == s.FedCode {
				s.FedCodeUsed, s.FedCode = code, ""
			}
		}
		return p
	}
	vfExtraOps["idp_server"] = func(w *vfWorld, st vfStep, p *vfPrepared) *vfPrepared {
		p.env = func() {
			if w.idp != nil {
				w.idp.Mode = st.A
			}
		}
		return p
	}
}

// ---- AWS STS: validation of presigned GetCallerIdentity URLs (cloud-role certificates) ---------------------------
// A presigned URL is "signed" here by carrying X-Amz-Signature=sig-<credential>; the credential names the role session.

var vfAwsRoles = map[string]string{ // credential -> ARN the service reports
	"AKIAROLE1": "arn:aws:sts::123456789012:assumed-role/build-runner/i-0123456789abcdef0",
	"AKIAROLE2": "arn:aws:sts::123456789012:assumed-role/deployer/session-7",
	"AKIAOTHER": "arn:aws:sts::999999999999:assumed-role/build-runner/i-0fedcba9876543210", // an account that is not allowed
	"AKIAUSER1": "arn:aws:iam::123456789012:user/somebody",                                 // not a role
}

func vfAwsPresignedURL(cred string, goodSig bool) string {
	sig := "sig-" + cred
	if !goodSig {
		sig = "sig-forged"
	}
	return "https://sts.us-east-1.amazonaws.com/?Action=GetCallerIdentity&Version=2011-06-15&X-Amz-Algorithm=AWS4-HMAC-SHA256&X-Amz-Credential=" +
		cred + "%2F20000101%2Fus-east-1%2Fsts%2Faws4_request&X-Amz-Expires=900&X-Amz-Signature=" + sig
}

func (o *simOkta) stsRoundTrip(req *http.Request) (*http.Response, error) {
	w := o.w
	w.sched.park("sts:GetCallerIdentity")
	if o.StsMode == "down" {
		w.fault("sts.down")
		time.Sleep(3 * time.Second)
		return nil, errors.New("sim: dial tcp: i/o timeout")
	}
	q := req.URL.Query()
	cred, _, _ := strings.Cut(q.Get("X-Amz-Credential"), "/")
	arnStr, ok := vfAwsRoles[cred]
	if !ok || q.Get("X-Amz-Signature") != "sig-"+cred {
		return o.replyRaw(req, 403, "text/xml", "<ErrorResponse><Error><Code>SignatureDoesNotMatch</Code></Error></ErrorResponse>"), nil
	}
	w.probe("sts-identity-confirmed")
	acct := strings.Split(arnStr, ":")[4]
	return o.replyRaw(req, 200, "text/xml", "<GetCallerIdentityResponse xmlns=\"https://sts.amazonaws.com/doc/2011-06-15/\"><GetCallerIdentityResult><Arn>"+arnStr+
		"</Arn><UserId>AROAEXAMPLE:session</UserId><Account>"+acct+"</Account></GetCallerIdentityResult></GetCallerIdentityResponse>"), nil
}

func (o *simOkta) replyRaw(req *http.Request, code int, ctype, body string) *http.Response {
	return &http.Response{StatusCode: code, Status: fmt.Sprintf("%d %s", code, http.StatusText(code)), Proto: "HTTP/1.1", ProtoMajor: 1, ProtoMinor: 1,
		Header: http.Header{"Content-Type": {ctype}}, Body: io.NopCloser(strings.NewReader(body)), Request: req, ContentLength: int64(len(body))}
}

func init() {
	// a cloud workload asks for its role certificate.  A: credential (AKIAROLE1|AKIAROLE2|AKIAOTHER|AKIAUSER1|unknown); B: key; C: "" | forged (bad signature) | claim:<arn> (claims another ARN)
	vfExtraOps["awsrole"] = func(w *vfWorld, st vfStep, p *vfPrepared) *vfPrepared {
		cred := st.A
		if cred == "" {
			cred = "AKIAROLE1"
		}
		keyName := st.B
		if keyName == "" {
			keyName = "user_p256_1"
		}
		claimed := ""
		if a, ok := vfAwsRoles[cred]; ok {
			// arn:aws:sts::ACCT:assumed-role/NAME/SESSION -> arn:aws:iam::ACCT:role/NAME
			parts := strings.Split(a, ":")
			res := strings.Split(parts[5], "/")
			if res[0] == "assumed-role" && len(res) >= 2 {
				claimed = "arn:aws:iam::" + parts[4] + ":role/" + res[1]
			} else {
				claimed = a
			}
		} else {
			claimed = "arn:aws:iam::123456789012:role/build-runner"
		}
		if strings.HasPrefix(st.C, "claim:") {
			claimed = st.C[6:]
		}
		r := &vfReq{Method: "POST", Path: "/aws/requestRoleCertificate/v1", Cookies: map[string]string{}, NoTLS: false,
			Header: map[string]string{"Claimed-Arn": claimed, "Presigned-Method": "GET", "Presigned-Url": vfAwsPresignedURL(cred, st.C != "forged"), "Content-Type": "application/x-pem-file"},
			Raw:    []byte(vfKey(keyName).pkixPEM())}
		if st.N == 1 {
			r.Method = "GET"
		}
		p.call = w.prepare(r)
		p.intent.Op = "awsrole"
		_, known := vfAwsRoles[cred]
		p.intent.Aws = &vfAwsReq{Cred: cred, Claimed: claimed, KeyName: keyName,
			Rightful: known && st.C == "" && strings.Contains(vfAwsRoles[cred], ":123456789012:") && strings.Contains(vfAwsRoles[cred], "assumed-role/") && r.Method == "POST"}
		return p
	}
}

type vfAwsReq struct {
	Cred, Claimed, KeyName string
	Rightful               bool
}

// observeAws judges the cloud-role endpoint: who may get a certificate (C06/C01 direction: nobody without a confirmed
// identity of an allowed account), what it names and certifies (C02 direction), how long it lives (C03: 24 hours).
func (m *vfModel) observeAws(ctx *vfReqCtx, in *vfIntent, resp *vfResp) {
	w := m.w
	ar := in.Aws
	iss := vfParseIssued(resp.Body)
	issued := resp.Code == 200 && iss != nil && iss.X509 != nil
	if !issued {
		strongKey := ar.KeyName == "user_p256_1" || ar.KeyName == "user_rsa2048_1" // weak keys are rightly refused (C10's matter)
		if ar.Rightful && strongKey && w.cleanWindow() && w.okta.StsMode != "down" {
			w.violate("C03", "cloud-role-refused", fmt.Sprintf("cloud-role-refused:%d", resp.Code), fmt.Sprintf("a workload with a confirmed role identity of an allowed account was answered %d", resp.Code))
		}
		return
	}
	w.probe("cloud-role-cert-issued")
	if !ar.Rightful {
		w.violate("C06", "effect-without-credential", "effect-without-credential:signed:/aws/requestRoleCertificate/v1:"+ar.Cred,
			fmt.Sprintf("a cloud-role certificate was issued to credential %s claiming %s (method %s)", ar.Cred, ar.Claimed, ctx.req.Method))
	}
	c := iss.X509
	life := c.NotAfter.Sub(time.Now())
	if life > 24*time.Hour+2*time.Second || c.NotAfter.Sub(c.NotBefore) > 24*time.Hour+10*time.Minute {
		w.violate("C03", "too-long", "too-long:cloud-role", fmt.Sprintf("cloud-role certificate valid until %v: %v from now", c.NotAfter.Unix(), life))
	}
	if c.NotBefore.After(time.Now().Add(time.Second)) {
		w.violate("C03", "starts-in-future", "starts-in-future:cloud-role", "cloud-role certificate validity starts in the future")
	}
	got, _ := x509.MarshalPKIXPublicKey(c.PublicKey)
	if !bytes.Equal(got, vfKey(ar.KeyName).pkixDER()) {
		w.violate("C02", "wrong-key", "wrong-key:cloud-role", "cloud-role certificate certifies another key than the one submitted")
	}
	if c.IsCA {
		w.violate("C02", "ca-flag", "ca-flag:cloud-role", "cloud-role certificate is a CA")
	}
	m.verifyX509(c, "C02")
}
