package main

// Plan vocabulary and its interpreter.  A plan is a list of steps; client
// steps are exactly one HTTP request each; environment steps change the
// simulated world (clock, directory, backends, storage faults).

import (
	"crypto/ecdsa"
	"crypto/rand"
	"crypto/sha256"
	"encoding/asn1"
	"encoding/base64"
	"encoding/json"
	"fmt"
	"math/big"
	"net/http"
	"net/url"
	"regexp"
	"strconv"
	"strings"
	"testing/synctest"
	"time"

	"github.com/pquerna/otp/totp"
	"github.com/tstranex/u2f"
)

type vfStep struct {
	Op     string   `json:"op"`
	Sess   string   `json:"sess,omitempty"`
	User   string   `json:"user,omitempty"`
	Target string   `json:"target,omitempty"`
	A      string   `json:"a,omitempty"`
	B      string   `json:"b,omitempty"`
	C      string   `json:"c,omitempty"`
	N      int64    `json:"n,omitempty"`
	D      string   `json:"d,omitempty"` // duration
	L      []string `json:"l,omitempty"`
	Par    int      `json:"par,omitempty"` // steps with the same non-zero value run concurrently
	Serial bool     `json:"serial,omitempty"` // member of a concurrent group executed alone (sequential reference run)
}

func (s vfStep) String() string {
	b, _ := json.Marshal(s)
	return string(b)
}

type vfPlan struct {
	Prop  string   `json:"property"`
	Class string   `json:"class,omitempty"`
	Key   string   `json:"key,omitempty"`
	Seed  int64    `json:"seed"`
	Cfg   vfCfg    `json:"config"`
	Steps []vfStep `json:"plan"`
	Tape  []int    `json:"tape"`
	Expect string  `json:"expect,omitempty"`
	Tree  string   `json:"tree,omitempty"`
	Variant string `json:"variant,omitempty"`
	NoPost  bool   `json:"no_post,omitempty"`
}

type vfSession struct {
	FedState, FedCode, FedCodeUsed string // federated login in progress (state sent to the provider, code received from it)
	Name    string
	Cookies map[string]string
	Peer    string
	Cert    string // artefact ref of a client certificate attached to every request of this session

	lastChallenge string
	lastSignResp  []byte
	lastWAChallenge string
	lastWAResp      []byte
}

func (w *vfWorld) session(name string) *vfSession {
	if name == "" {
		name = "anon"
	}
	s := w.sessions[name]
	if s == nil {
		s = &vfSession{Name: name, Cookies: map[string]string{}}
		w.sessions[name] = s
	}
	return s
}

// absorb stores cookies set by the response in the session's jar.
func (s *vfSession) absorb(resp *vfResp) {
	for n, c := range resp.Cookies {
		if c.Value == "" || c.MaxAge < 0 {
			delete(s.Cookies, n)
			continue
		}
		s.Cookies[n] = c.Value
	}
}

func copyCookies(m map[string]string) map[string]string {
	o := map[string]string{}
	for k, v := range m {
		o[k] = v
	}
	return o
}

// ---- software U2F token ----------------------------------------------------------

type vfSoftToken struct {
	Name      string
	Key       *vfKeyT
	KeyHandle []byte
	Counter   uint32
	Owner     string // user it is registered to ("" = nobody)
	Index     int64
	Enabled   bool
}

func (t *vfSoftToken) pubBytes() []byte {
	p := t.Key.pub().(*ecdsa.PublicKey)
	b := make([]byte, 65)
	b[0] = 4
	p.X.FillBytes(b[1:33])
	p.Y.FillBytes(b[33:65])
	return b
}

func (t *vfSoftToken) registerResponse(appID, challengeB64 string) []byte {
	cd, _ := json.Marshal(map[string]string{"typ": "navigator.id.finishEnrollment", "challenge": challengeB64, "origin": appID})
	appParam := sha256.Sum256([]byte(appID))
	chalParam := sha256.Sum256(cd)
	att := vfKey("u2f_attest.key")
	attCert := vfPEMFile("u2f_attest.pem")
	var tbs []byte
	tbs = append(tbs, 0)
	tbs = append(tbs, appParam[:]...)
	tbs = append(tbs, chalParam[:]...)
	tbs = append(tbs, t.KeyHandle...)
	tbs = append(tbs, t.pubBytes()...)
	h := sha256.Sum256(tbs)
	sig, _ := ecdsa.SignASN1(rand.Reader, att.Priv.(*ecdsa.PrivateKey), h[:])
	var rd []byte
	rd = append(rd, 5)
	rd = append(rd, t.pubBytes()...)
	rd = append(rd, byte(len(t.KeyHandle)))
	rd = append(rd, t.KeyHandle...)
	rd = append(rd, attCert...)
	rd = append(rd, sig...)
	out, _ := json.Marshal(u2f.RegisterResponse{Version: "U2F_V2",
		RegistrationData: b64u(rd), ClientData: b64u(cd)})
	return out
}

func (t *vfSoftToken) signResponse(appID, challengeB64 string) []byte {
	cd, _ := json.Marshal(map[string]string{"typ": "navigator.id.getAssertion", "challenge": challengeB64, "origin": appID})
	appParam := sha256.Sum256([]byte(appID))
	chalParam := sha256.Sum256(cd)
	t.Counter++
	raw := []byte{1, byte(t.Counter >> 24), byte(t.Counter >> 16), byte(t.Counter >> 8), byte(t.Counter)}
	var tbs []byte
	tbs = append(tbs, appParam[:]...)
	tbs = append(tbs, raw...)
	tbs = append(tbs, chalParam[:]...)
	h := sha256.Sum256(tbs)
	r, s, _ := ecdsa.Sign(rand.Reader, t.Key.Priv.(*ecdsa.PrivateKey), h[:])
	sig, _ := asn1.Marshal(struct{ R, S *big.Int }{r, s})
	sd := append(raw, sig...)
	out, _ := json.Marshal(u2f.SignResponse{KeyHandle: b64u(t.KeyHandle), SignatureData: b64u(sd), ClientData: b64u(cd)})
	return out
}

func b64u(b []byte) string {
	return strings.TrimRight(base64.URLEncoding.EncodeToString(b), "=")
}

func (w *vfWorld) token(name string) *vfSoftToken {
	t := w.tokens[name]
	if t == nil {
		// token names are tok1..tok6 -> fixtures u2f_token_N
		n := strings.TrimPrefix(name, "tok")
		t = &vfSoftToken{Name: name, Key: vfKey("u2f_token_" + n), KeyHandle: []byte("kh-" + name + "-0123456789abcdef")}
		w.tokens[name] = t
	}
	return t
}

// ---- step execution ---------------------------------------------------------------

type vfPrepared struct {
	step   vfStep
	call   *vfCall
	intent *vfIntent
	sess   *vfSession
	after  func(resp *vfResp) // bookkeeping of harness-side facts (secrets shown, challenges seen)
	env    func()             // environment step
	task   func()             // a non-request activity that runs as a task of a concurrent group
}

var reTOTPSecret = regexp.MustCompile(`"TOTPSecret":"([A-Z2-7]+)"`)

func (w *vfWorld) resolveCookie(ref string, sess *vfSession) string {
	// "" -> the session's own; "sess:NAME" -> that session's; "art:N" -> artefact value
	switch {
	case ref == "":
		return sess.Cookies[authCookieName]
	case strings.HasPrefix(ref, "sess:"):
		return w.session(ref[5:]).Cookies[authCookieName]
	case strings.HasPrefix(ref, "art:"):
		if a := w.art(ref); a != nil {
			return a.Value
		}
	}
	return ""
}

func (w *vfWorld) art(ref string) *vfArtefact {
	ref = strings.TrimPrefix(ref, "art:")
	switch ref {
	case "":
		return nil
	case "newest":
		if n := len(w.model.arts); n > 0 {
			return w.model.arts[n-1]
		}
		return nil
	}
	if n, err := strconv.Atoi(ref); err == nil {
		if n >= 1 && n <= len(w.model.arts) {
			return w.model.arts[n-1]
		}
		return nil
	}
	// symbolic: "last:<kind>[:subject]"
	if strings.HasPrefix(ref, "last:") {
		p := strings.Split(ref[5:], ":")
		for i := len(w.model.arts) - 1; i >= 0; i-- {
			a := w.model.arts[i]
			if a.Kind == p[0] && (len(p) < 2 || a.Subject == p[1]) {
				return a
			}
		}
	}
	return nil
}

// base request for a session: jar cookies, peer, client certificate
func (w *vfWorld) baseReq(s *vfSession, method, path string) *vfReq {
	r := &vfReq{Method: method, Path: path, Cookies: copyCookies(s.Cookies), Peer: s.Peer, Header: map[string]string{}}
	if s.Cert != "" {
		if a := w.art(s.Cert); a != nil {
			r.Cert = a.Cert
		}
	}
	return r
}

func (w *vfWorld) totpCode(user string, at time.Time) string {
	f := w.model.user(user)
	if f.TOTPSecret == "" {
		return "000000"
	}
	c, err := totp.GenerateCode(f.TOTPSecret, at)
	if err != nil {
		return "000000"
	}
	return c
}

// prepareStep turns a plan step into a prepared request (or environment action).
// Unresolvable references make the step a no-op (nil), so shrunk plans stay valid.
func (w *vfWorld) prepareStep(st vfStep) *vfPrepared {
	w.pendingMods = st.L
	defer func() { w.pendingMods = nil }()
	p := &vfPrepared{step: st}
	s := w.session(st.Sess)
	p.sess = s
	in := &vfIntent{Op: st.Op, Sess: s.Name}
	p.intent = in
	m := w.model
	subject := ""
	if ci := m.cookies[s.Cookies[authCookieName]]; ci != nil {
		subject = ci.Subject
	}
	switch st.Op {
	case "advance":
		d, err := time.ParseDuration(st.D)
		if err != nil || d <= 0 {
			return nil
		}
		p.env = func() {
			w.fault("clock.advance")
			time.Sleep(d)
			synctest.Wait()
		}
	case "login":
		// A: password ("" = current directory password of User; "old" = previous; "wrong"), B: via (form|basic|html)
		pw := st.A
		switch pw {
		case "":
			pw = w.dirsim.Password[strings.ToLower(st.User)]
		case "old":
			pw = w.oldPassword[strings.ToLower(st.User)]
			if pw == "" {
				pw = "never-was-a-password"
			}
		case "twin":
			// the current password with its last characters changed
			pw = w.dirsim.Password[strings.ToLower(st.User)]
			if len(pw) > 4 {
				pw = pw[:len(pw)-3] + "zzz"
			}
		case "wrong":
			pw = "wrong-" + st.User
		}
		if strings.HasPrefix(pw, "of:") {
			pw = w.dirsim.Password[pw[3:]] // somebody else's current password
		}
		in.LoginUser, in.LoginPw = st.User, pw
		r := w.baseReq(s, "POST", "/api/v0/login")
		delete(r.Cookies, authCookieName)
		switch st.B {
		case "basic":
			r.Basic = &[2]string{st.User, pw}
			r.Form = url.Values{}
		case "html":
			r.Header["Accept"] = "text/html"
			r.Form = url.Values{"username": {st.User}, "password": {pw}}
		default:
			r.Form = url.Values{"username": {st.User}, "password": {pw}}
		}
		p.call = w.prepare(r)
	case "logout":
		p.call = w.prepare(w.baseReq(s, "GET", "/api/v0/logout"))
	case "totp":
		// A: which code: cur | prev | next | used | other:<user> | wrong ; B: endpoint auth|verify ; C: cookie override
		who := subject
		code := ""
		now := time.Now()
		switch {
		case st.A == "" || st.A == "cur":
			code = w.totpCode(who, now)
		case st.A == "prev":
			code = w.totpCode(who, now.Add(-30*time.Second))
		case st.A == "old":
			code = w.totpCode(who, now.Add(-90*time.Second))
			in.Why = map[int]string{AuthTypeTOTP: "expired-accepted"}
		case st.A == "next":
			code = w.totpCode(who, now.Add(30*time.Second))
		case st.A == "used":
			code = m.user(who).lastAccepted
			if code == "" {
				return nil
			}
		case strings.HasPrefix(st.A, "other:"):
			who = st.A[6:]
			code = w.totpCode(who, now)
		default:
			code = "000001"
		}
		cookie := w.resolveCookie(st.C, s)
		tgt := subject
		if st.C != "" {
			if ci := m.cookies[cookie]; ci != nil {
				tgt = ci.Subject
			}
		}
		// does this request really prove TOTP for the cookie's subject?
		f := m.user(tgt)
		valid := false
		if f.TOTPEnabled && f.TOTPSecret != "" {
			for _, d := range []time.Duration{-30 * time.Second, 0, 30 * time.Second} {
				if w.totpCode(tgt, now.Add(d)) == code {
					valid = true
				}
			}
		}
		if valid && f.UsedTOTP[code] {
			in.Why = map[int]string{AuthTypeTOTP: "otp-replayed"}
		} else if valid && in.Why == nil {
			in.Claims = append(in.Claims, vfClaim{AuthTypeTOTP, tgt})
		}
		path := "/api/v0/TOTPAuth"
		if st.B == "verify" {
			path = "/api/v0/VerifyTOTP"
		}
		r := w.baseReq(s, "POST", path)
		if st.C != "" {
			r.Cookies[authCookieName] = cookie
		}
		r.Form = url.Values{"OTP": {code}}
		p.call = w.prepare(r)
		p.after = func(resp *vfResp) {
			if resp.Code == 200 && path == "/api/v0/TOTPAuth" && valid {
				f.UsedTOTP[code] = true
				f.lastAccepted = code
				f.lastAcceptedStep = time.Now().Unix()/30 + 1
			}
		}
	case "vipotp":
		// A: cur | used | other:<user> | wrong
		who := subject
		code := 1
		switch {
		case st.A == "" || st.A == "cur":
			code = vfVipCode(who, time.Now())
		case strings.HasPrefix(st.A, "other:"):
			code = vfVipCode(st.A[6:], time.Now())
		}
		r := w.baseReq(s, "POST", "/api/v0/vipAuth")
		if st.C != "" {
			r.Cookies[authCookieName] = w.resolveCookie(st.C, s)
		}
		r.Form = url.Values{"OTP": {strconv.Itoa(code)}}
		p.call = w.prepare(r)
	case "pushstart", "pushpoll":
		path := "/api/v0/vipPushStart"
		if st.Op == "pushpoll" {
			path = "/api/v0/vipPollCheck"
		}
		r := w.baseReq(s, "GET", path)
		// A: vip cookie override "sess:NAME" (attach another session's unauthenticated push cookie)
		if strings.HasPrefix(st.A, "sess:") {
			if v := w.session(st.A[5:]).Cookies[vipTransactionCookieName]; v != "" {
				r.Cookies[vipTransactionCookieName] = v
			} else {
				return nil
			}
		}
		if st.C != "" {
			r.Cookies[authCookieName] = w.resolveCookie(st.C, s)
		}
		p.call = w.prepare(r)
	case "approve", "deny":
		p.env = func() {
			if w.vipsim.deviceAnswer(st.User, st.Op == "approve") {
				w.fault("push." + st.Op)
			}
		}
	case "u2fsignreq":
		r := w.baseReq(s, "GET", "/u2f/SignRequest")
		p.call = w.prepare(r)
		p.after = func(resp *vfResp) {
			if resp.Code != 200 {
				return
			}
			var sr u2f.WebSignRequest
			if json.Unmarshal(resp.Body, &sr) == nil && sr.Challenge != "" {
				s.lastChallenge = sr.Challenge
				w.challenges = append(w.challenges, sr.Challenge)
				m.u2fChallengeFor[sr.Challenge] = subject
				m.u2fChallengeAt[sr.Challenge] = time.Now()
				m.u2fLatestFor[subject] = sr.Challenge
			}
		}
	case "u2fsignresp":
		// Target: token name; A: challenge choice: own(latest seen by this session) | sess:NAME | stale(first ever) | replay
		tok := w.token(st.Target)
		ch := s.lastChallenge
		switch {
		case strings.HasPrefix(st.A, "sess:"):
			ch = w.session(st.A[5:]).lastChallenge
		case st.A == "stale":
			if len(w.challenges) > 0 {
				ch = w.challenges[0]
			}
		}
		if ch == "" {
			return nil
		}
		r := w.baseReq(s, "POST", "/u2f/SignResponse")
		if st.A == "replay" && s.lastSignResp != nil {
			r.JSON = s.lastSignResp
		} else {
			r.JSON = tok.signResponse(u2fAppID, ch)
		}
		s.lastSignResp = r.JSON
		// truth: the token is an enabled token of the cookie's subject, and the
		// assertion answers the challenge most recently issued to that subject,
		// not consumed, not older than lifetime + one sweep
		issuedTo := m.u2fChallengeFor[ch]
		age := time.Since(m.u2fChallengeAt[ch])
		switch {
		case tok.Owner != subject || !tok.Enabled || subject == "":
			in.Why = map[int]string{AuthTypeU2F: "level-for-other-user"}
		case issuedTo != subject:
			in.Why = map[int]string{AuthTypeU2F: "level-for-other-user"}
		case m.u2fConsumed[ch]:
			in.Why = map[int]string{AuthTypeU2F: "otp-replayed"}
		case age > (maxAgeU2FVerifySeconds+secsBetweenCleanup+1)*time.Second:
			in.Why = map[int]string{AuthTypeU2F: "expired-accepted"}
		case m.u2fLatestFor[subject] != ch:
			// superseded by a newer challenge for the same user: not the one the server holds
			in.Why = map[int]string{AuthTypeU2F: "level-not-proven"}
		default:
			in.Claims = append(in.Claims, vfClaim{AuthTypeU2F, subject})
		}
		p.call = w.prepare(r)
		p.after = func(resp *vfResp) {
			if resp.Code == 200 && string(resp.Body) == "success" {
				m.u2fConsumed[ch] = true
			}
		}
	case "bootstrapotp":
		// A: "" right value of the session's subject | other:<user> | wrong | used
		val := ""
		who := subject
		switch {
		case st.A == "" || st.A == "used":
			val = m.user(who).BootstrapOTP
		case strings.HasPrefix(st.A, "other:"):
			val = m.user(st.A[6:]).BootstrapOTP
			who = st.A[6:]
		default:
			val = "definitely-not-the-otp"
		}
		if val == "" {
			return nil
		}
		f := m.user(subject)
		switch {
		case who != subject:
			in.Why = map[int]string{AuthTypeBootstrapOTP: "level-for-other-user"}
		case f.BootstrapUsed:
			in.Why = map[int]string{AuthTypeBootstrapOTP: "otp-replayed"}
		case !time.Now().Before(f.BootstrapExp):
			in.Why = map[int]string{AuthTypeBootstrapOTP: "expired-accepted"}
		case len(f.U2FTokens) > 0 || f.TOTPSecret != "":
			in.Why = map[int]string{AuthTypeBootstrapOTP: "level-not-proven"}
		case st.A == "wrong":
		default:
			in.Claims = append(in.Claims, vfClaim{AuthTypeBootstrapOTP, subject})
		}
		r := w.baseReq(s, "POST", "/api/v0/bootstrapOtpAuth")
		r.Form = url.Values{"OTP": {val}}
		p.call = w.prepare(r)
		p.after = func(resp *vfResp) {
			upgraded := false
			if c, ok := resp.Cookies[authCookieName]; ok && c.Value != "" {
				if pl := vfJWTPayload(c.Value); pl != nil && int(jnum(pl, "auth_type"))&AuthTypeBootstrapOTP != 0 {
					upgraded = true // honoured, whatever the status code says
				}
			}
			if (resp.Code == 200 || upgraded) && who == subject {
				f.BootstrapUsed = true
			}
		}
	case "certgen":
		// User: URL user; A: type; B: key fixture name; D: duration ("" none); C: credential override
		//   C: "" session jar | none | basic:<user>:<pw|cur|wrong> | art:<ref> (cookie artefact) | cert:<ref>
		// N: method 0=POST 1=GET 2=PUT
		method := []string{"POST", "GET", "PUT"}[int(st.N)%3]
		typ := st.A
		keyName := st.B
		if keyName == "" {
			keyName = "user_rsa2048_1"
		}
		key := vfKey(keyName)
		if st.User == "@jar" {
			// whoever the cookie now in this session's jar speaks for (the client reads it off the cookie)
			st.User = ""
			if pl := vfJWTPayload(s.Cookies[authCookieName]); pl != nil {
				st.User = jstr(pl, "sub")
			}
			if st.User == "" {
				return nil
			}
		}
		path := "/certgen/" + st.User
		if typ != "" {
			path += "?type=" + url.QueryEscape(typ)
		}
		keyText := key.sshPub()
		if strings.HasPrefix(typ, "x509") {
			keyText = key.pkixPEM()
		}
		r := w.baseReq(s, method, path)
		r.Multi = map[string]string{"@pubkeyfile": keyText}
		if st.D != "" {
			r.Multi["duration"] = st.D
		}
		switch {
		case st.C == "none":
			r.Cookies = map[string]string{}
			r.Cert = nil
		case strings.HasPrefix(st.C, "basic:"):
			q := strings.SplitN(st.C[6:], ":", 2)
			pw := "wrong"
			if len(q) == 2 {
				pw = q[1]
			}
			if pw == "cur" {
				pw = w.dirsim.Password[strings.ToLower(q[0])]
			}
			r.Cookies = map[string]string{}
			r.Basic = &[2]string{q[0], pw}
		case strings.HasPrefix(st.C, "art:"):
			a := w.art(st.C)
			if a == nil {
				return nil
			}
			r.Cookies = map[string]string{authCookieName: a.Value}
		case strings.HasPrefix(st.C, "sess:"):
			r.Cookies = map[string]string{authCookieName: w.session(st.C[5:]).Cookies[authCookieName]}
		case strings.HasPrefix(st.C, "cert:"):
			a := w.art(st.C[5:])
			if a == nil || a.Cert == nil {
				return nil
			}
			r.Cookies = map[string]string{}
			r.Cert = a.Cert
			if st.Target != "" {
				r.Peer = st.Target
			}
		}
		in.CertReq = &vfCertReq{URLUser: st.User, Type: typ, KeyName: keyName, KeyText: keyText, Duration: st.D, HasDur: st.D != "", Method: method}
		if typ != "" && typ != "ssh" && typ != "x509" && typ != "x509-kubernetes" {
			in.Why = map[int]string{0: "bad-type"}
		}
		if st.D != "" {
			if d, err := time.ParseDuration(st.D); err != nil || d > 24*time.Hour || d <= 0 {
				in.Why = map[int]string{0: "bad-duration"}
			}
		}
		if key.kind() == "ed25519" && !w.cfg.Ed25519CA && (typ == "" || typ == "ssh") {
			in.Why = map[int]string{0: "no-ed25519-ca"}
		}
		if (key.kind() == "p384" || key.kind() == "p521") && (typ == "" || typ == "ssh") {
			// whether these SSH key types must be certified is C19's question, not C01's
			in.Why = map[int]string{0: "ssh-key-type"}
		}
		if typ == "x509-kubernetes" && !w.cfg.GroupsLDAP {
			// organisations come from groups; fine without a directory (empty)
		}
		p.call = w.prepare(r)
	case "stall":
		p.env = func() {
			w.fault("db.primary.stall")
			w.primary.setStall(2500 * time.Millisecond)
			w.stalled = true
		}
	case "heal":
		p.env = func() {
			w.primary.setStall(0)
			w.stalled = false
			// requests abandoned by a stall finish in the background
			time.Sleep(3 * time.Second)
			synctest.Wait()
		}
	default:
		if f := vfExtraOps[st.Op]; f != nil {
			return f(w, st, p)
		}
		panic("vf: unknown op " + st.Op)
	}
	return p
}

// extension point for per-property operation files
var vfExtraOps = map[string]func(w *vfWorld, st vfStep, p *vfPrepared) *vfPrepared{}

// finishStep observes the response with all monitors and updates the jar.
func (w *vfWorld) finishStep(p *vfPrepared) {
	if p.call == nil {
		return
	}
	if p.call.blocked {
		// the recorder is still being written by the stuck handler: do not touch it
		p.call.resp = &vfResp{Code: 0, Header: http.Header{}, Cookies: map[string]*http.Cookie{}}
		p.call.req = nil
	}
	resp := p.call.finish()
	ctx := p.call.ctx
	w.logf("%s %s -> %d%s", p.step.Op, vfStepBrief(p.step), resp.Code, vfRespBrief(resp))
	m := w.model
	if resp.Panic != nil {
		w.logf("handler panic: %v", resp.Panic)
	}
	if len(ctx.pushStartedFor) > 0 {
		if v := ctx.req.Cookies[vipTransactionCookieName]; v != "" {
			m.pushCookieUser[v] = ctx.pushStartedFor[0]
		}
	}
	m.observeLevel(ctx, p.intent, resp)
	if p.intent.CertReq != nil {
		m.observeCertgen(ctx, p.intent, resp)
	}
	if p.intent.Role != nil {
		m.observeRole(ctx, p.intent, resp)
	}
	if p.intent.Aws != nil {
		m.observeAws(ctx, p.intent, resp)
	}
	for _, ob := range w.observers {
		ob(p, ctx, resp)
	}
	if p.after != nil {
		p.after(resp)
	}
	if p.sess != nil && p.step.C == "" {
		p.sess.absorb(resp)
	}
}

func vfStepBrief(s vfStep) string {
	var parts []string
	for _, kv := range [][2]string{{"sess", s.Sess}, {"user", s.User}, {"target", s.Target}, {"a", s.A}, {"b", s.B}, {"c", s.C}, {"d", s.D}} {
		if kv[1] != "" {
			parts = append(parts, kv[0]+"="+kv[1])
		}
	}
	if s.N != 0 {
		parts = append(parts, fmt.Sprintf("n=%d", s.N))
	}
	return strings.Join(parts, " ")
}

func vfRespBrief(r *vfResp) string {
	out := ""
	if c, ok := r.Cookies[authCookieName]; ok && c.Value != "" {
		if pl := vfJWTPayload(c.Value); pl != nil {
			out += fmt.Sprintf(" cookie{sub=%s level=%s}", jstr(pl, "sub"), vfLevelString(int(jnum(pl, "auth_type"))))
		}
	}
	if iss := vfParseIssued(r.Body); iss != nil {
		if iss.SSH != nil {
			out += fmt.Sprintf(" sshcert{%v %d..%d}", iss.SSH.ValidPrincipals, iss.SSH.ValidAfter, iss.SSH.ValidBefore)
		} else {
			out += fmt.Sprintf(" x509{%s %d..%d}", iss.X509.Subject.CommonName, iss.X509.NotBefore.Unix(), iss.X509.NotAfter.Unix())
		}
	}
	return out
}

// runPlan executes all steps; consecutive steps sharing a non-zero Par run as
// one concurrent group under the choice tape.
func (w *vfWorld) runPlan(steps []vfStep) {
	for i := 0; i < len(steps); {
		j := i + 1
		if steps[i].Par != 0 {
			for j < len(steps) && steps[j].Par == steps[i].Par {
				j++
			}
		} else if steps[i].Serial {
			// sequential reference execution of a concurrent group: the requests are
			// built together (same bytes as in the concurrent run), then served one by one
			for j < len(steps) && steps[j].Serial {
				j++
			}
		}
		w.stepIdx = i
		var group []*vfPrepared
		for k := i; k < j; k++ {
			if p := w.prepareStep(steps[k]); p != nil {
				group = append(group, p)
			}
		}
		if w.pendingDBFault > 0 && len(group) > 0 && group[0].call != nil {
			w.primary.arm("error", w.pendingDBFault)
			w.fault("db.stmt.error")
			w.armedForStep = true
			w.pendingDBFault = 0
		}
		w.groupHasRightInject = false
		for _, p := range group {
			if p.intent != nil && p.intent.Inject != nil && p.intent.Inject.Right && p.step.Par != 0 {
				w.groupHasRightInject = true
			}
		}
		var names []string
		var fns []func()
		for _, p := range group {
			if p.env != nil {
				p.env()
				w.logf("%s %s", p.step.Op, vfStepBrief(p.step))
				continue
			}
			if p.call != nil {
				p := p
				names = append(names, p.step.Op)
				fns = append(fns, p.call.exec)
			} else if p.task != nil {
				names = append(names, p.step.Op)
				fns = append(fns, p.task)
			}
		}
		if len(fns) == 1 && w.detectBlocked && !steps[i].Serial {
			// watchdog in simulated time: a handler that never returns (e.g. blocked on a
			// subscriber that does not read) is reported instead of hanging the run
			done := make(chan struct{})
			fn := fns[0]
			go func() { fn(); close(done) }()
			select {
			case <-done:
			case <-time.After(120 * time.Second):
				for _, p := range group {
					if p.call != nil {
						p.call.blocked = true
					}
				}
			}
			synctest.Wait()
		} else if len(fns) > 0 && steps[i].Serial {
			for k := range fns {
				w.sched.runGroup(names[k:k+1], fns[k:k+1])
			}
		} else if len(fns) > 0 {
			w.sched.runGroup(names, fns)
		}
		if w.armedForStep {
			if fired, _ := w.primary.disarm(); fired {
				w.probe("db-fault-fired-in-request")
				w.faultedThisStep = true
			}
			w.armedForStep = false
		}
		for _, p := range group {
			w.finishStep(p)
		}
		w.faultedThisStep = false
		for _, p := range group {
			if p.call != nil && p.call.blocked {
				// a handler is stuck (possibly holding a product lock): nothing after this point is meaningful
				w.logf("run aborted: handler blocked")
				w.aborted = true
				w.res.Steps += j - i
				return
			}
		}
		w.res.Steps += j - i
		i = j
		if len(w.res.Violations) > 0 && w.stopOnViolation {
			return
		}
	}
}

func vfAdvanceMinimal() {
	time.Sleep(100 * time.Millisecond)
}

func vfPEMFile(name string) []byte {
	return vfPEMDer(vfFixture(name))
}
