package main

// WebAuthn login endpoints, U2F-compatibility branch (the path today's web UI
// uses for hardware tokens): software token producing WebAuthn assertions.

import (
	"bytes"
	"fmt"
	"os"

	"github.com/duo-labs/webauthn/protocol"
	"crypto/ecdsa"
	"crypto/rand"
	"crypto/sha256"
	"encoding/base64"
	"encoding/json"
	"time"
)

func (t *vfSoftToken) webauthnAssertion(appID, origin, challenge string) []byte {
	cdj, _ := json.Marshal(map[string]string{"type": "webauthn.get", "challenge": challenge, "origin": origin})
	rp := sha256.Sum256([]byte(appID))
	t.Counter++
	ad := append([]byte{}, rp[:]...)
	ad = append(ad, 0x05, byte(t.Counter>>24), byte(t.Counter>>16), byte(t.Counter>>8), byte(t.Counter))
	h := sha256.Sum256(cdj)
	d := sha256.Sum256(append(append([]byte{}, ad...), h[:]...))
	sig, _ := ecdsa.SignASN1(rand.Reader, t.Key.Priv.(*ecdsa.PrivateKey), d[:])
	id := b64raw(t.KeyHandle)
	out, _ := json.Marshal(map[string]any{"id": id, "rawId": id, "type": "public-key",
		"response": map[string]string{"authenticatorData": b64raw(ad), "clientDataJSON": b64raw(cdj), "signature": b64raw(sig)}})
	return out
}

func init() {
	vfExtraOps["webauthn_begin"] = func(w *vfWorld, st vfStep, p *vfPrepared) *vfPrepared {
		s := w.session(st.Sess)
		r := w.baseReq(s, "GET", "/webauthn/AuthBegin/")
		p.call = w.prepare(r)
		subject := w.subjectOf(s)
		m := w.model
		p.after = func(resp *vfResp) {
			if resp.Code != 200 {
				return
			}
			var opts struct {
				PublicKey struct {
					Challenge string `json:"challenge"`
				} `json:"publicKey"`
			}
			if json.Unmarshal(resp.Body, &opts) == nil && opts.PublicKey.Challenge != "" {
				// the browser decodes the challenge bytes and the authenticator's client
				// data carries them base64url-encoded without padding
				ch := opts.PublicKey.Challenge
				for _, enc := range []*base64.Encoding{base64.RawURLEncoding, base64.URLEncoding, base64.StdEncoding, base64.RawStdEncoding} {
					if raw, err := enc.DecodeString(ch); err == nil {
						ch = base64.RawURLEncoding.EncodeToString(raw)
						break
					}
				}
				s.lastWAChallenge = ch
				w.waChallenges = append(w.waChallenges, ch)
				m.u2fChallengeFor[ch] = subject
				m.u2fChallengeAt[ch] = time.Now()
				m.u2fLatestFor[subject] = ch
			}
		}
		return p
	}
	// Target: token; A: own | sess:NAME | stale | replay
	vfExtraOps["webauthn_finish"] = func(w *vfWorld, st vfStep, p *vfPrepared) *vfPrepared {
		s := w.session(st.Sess)
		m := w.model
		subject := w.subjectOf(s)
		tok := w.token(st.Target)
		ch := s.lastWAChallenge
		switch {
		case len(st.A) > 5 && st.A[:5] == "sess:":
			ch = w.session(st.A[5:]).lastWAChallenge
		case st.A == "stale":
			if len(w.waChallenges) > 0 {
				ch = w.waChallenges[0]
			}
		}
		if ch == "" && st.B == "" {
			return nil
		}
		r := w.baseReq(s, "POST", "/webauthn/AuthFinish/")
		if st.A == "replay" && s.lastWAResp != nil {
			r.JSON = s.lastWAResp
		} else if st.B == "malformed" {
			// a syntactically broken assertion (what a buggy or hostile client sends)
			r.JSON = []byte(`{"id":"AAAA","rawId":"AAAA","type":"public-key","response":{"authenticatorData":"AA","clientDataJSON":"e30","signature":"AA"}}`)
		} else if st.B == "garbage" {
			r.JSON = []byte(`{"id": 5, "response": [`)
		} else {
			r.JSON = tok.webauthnAssertion(u2fAppID, u2fAppID, ch)
		}
		s.lastWAResp = r.JSON
		if os.Getenv("VF_LOG") != "" {
			if par, err := protocol.ParseCredentialRequestResponseBody(bytes.NewReader(r.JSON)); err != nil {
				fmt.Fprintln(os.Stderr, "VFDBG parse:", err)
			} else {
				la := w.state.localAuthData[subject]
				if la.WebAuthnChallenge != nil {
					fmt.Fprintf(os.Stderr, "VFDBG session challenge=%q mine=%q uv=%q rpid=%q origin=%q\n", la.WebAuthnChallenge.Challenge, ch, la.WebAuthnChallenge.UserVerification, w.state.webAuthn.Config.RPID, w.state.webAuthn.Config.RPOrigin)
				}
				e := par.Verify(ch, w.state.webAuthn.Config.RPID, w.state.webAuthn.Config.RPOrigin, u2fAppID, false, tok.pubBytes())
				fmt.Fprintf(os.Stderr, "VFDBG verify: %+v\n", e)
				if pe, ok := e.(*protocol.Error); ok {
					fmt.Fprintf(os.Stderr, "VFDBG detail: %s | %s\n", pe.Details, pe.DevInfo)
				}
			}
		}
		in := p.intent
		in.Op = "webauthn_finish"
		issuedTo := m.u2fChallengeFor[ch]
		age := time.Since(m.u2fChallengeAt[ch])
		switch {
		case tok.Owner != subject || !tok.Enabled || subject == "":
			in.Why = map[int]string{AuthTypeU2F: "level-for-other-user"}
		case issuedTo != subject:
			in.Why = map[int]string{AuthTypeU2F: "level-for-other-user"}
		case m.u2fConsumed[ch]:
			in.Why = map[int]string{AuthTypeU2F: "otp-replayed"}
		case age > (maxAgeU2FVerifySeconds+secsBetweenCleanup+1)*time.Second:
			in.Why = map[int]string{AuthTypeU2F: "expired-accepted"}
		case m.u2fLatestFor[subject] != ch:
			in.Why = map[int]string{AuthTypeU2F: "level-not-proven"}
		default:
			in.Claims = append(in.Claims, vfClaim{AuthTypeU2F, subject})
		}
		p.call = w.prepare(r)
		p.after = func(resp *vfResp) {
			if resp.Code == 200 {
				m.u2fConsumed[ch] = true
				w.probe("webauthn-login")
			}
		}
		return p
	}
}
