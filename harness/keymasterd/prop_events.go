package main

// C20: every certificate issued is reported to the audit stream with exactly
// the bytes returned, no later than the response; a slow subscriber never
// blocks issuance; the monitoring daemon's per-user history keeps the same
// events in the same order across save and restart.

import (
	vfhook "github.com/Cloud-Foundations/keymaster/zz_vfhook"
	"bufio"
	"bytes"
	"crypto/x509"
	"encoding/json"
	"fmt"
	"io"
	"math/rand/v2"
	"net"
	"net/http"
	"os"
	"path/filepath"
	"reflect"
	"strings"
	"testing/synctest"
	"time"

	"github.com/Cloud-Foundations/keymaster/eventmon/eventrecorder"
	"github.com/Cloud-Foundations/keymaster/proto/eventmon"
	"golang.org/x/crypto/ssh"
)

// ---- subscribers of the real notifier ------------------------------------------------

type vfSubscriber struct {
	id       int
	mode     string // fast | stalled
	client   net.Conn
	events   []eventmon.EventV0
	resume   chan struct{}
	closed   bool
	connected bool
	everStalled bool
}

type vfHijackWriter struct {
	hdr    http.Header
	conn   net.Conn
	code   int
}

func (h *vfHijackWriter) Header() http.Header         { return h.hdr }
func (h *vfHijackWriter) Write(b []byte) (int, error) { return len(b), nil }
func (h *vfHijackWriter) WriteHeader(c int)           { h.code = c }
func (h *vfHijackWriter) Hijack() (net.Conn, *bufio.ReadWriter, error) {
	return h.conn, bufio.NewReadWriter(bufio.NewReader(h.conn), bufio.NewWriter(h.conn)), nil
}

func (w *vfWorld) subscribe(id int, mode string) {
	w.subscribeStart(id, mode)
	synctest.Wait()
}

func (w *vfWorld) subscribeStart(id int, mode string) {
	server, client := net.Pipe()
	sub := &vfSubscriber{id: id, mode: mode, client: client, resume: make(chan struct{}, 1), everStalled: mode == "stalled"}
	if mode == "stalled" {
		w.fault("sub.stall")
	}
	w.subs[id] = sub
	req, _ := http.NewRequest("CONNECT", "https://"+vfAdminHost+eventmon.HttpPath, nil)
	req.RemoteAddr = "192.0.2.50:50000"
	go eventNotifier.ServeHTTP(&vfHijackWriter{hdr: http.Header{}, conn: server}, req)
	go func() {
		rd := bufio.NewReader(client)
		// status line + blank line
		for i := 0; i < 2; i++ {
			if _, err := rd.ReadString('\n'); err != nil {
				return
			}
		}
		sub.connected = true
		dec := json.NewDecoder(rd)
		for {
			if sub.mode == "stalled" {
				<-sub.resume // stops reading until resumed
			}
			var ev eventmon.EventV0
			if err := dec.Decode(&ev); err != nil {
				return
			}
			sub.events = append(sub.events, ev)
		}
	}()
}

func init() {
	vfExtraOps["subscribe"] = func(w *vfWorld, st vfStep, p *vfPrepared) *vfPrepared {
		if st.Par != 0 || st.Serial {
			// a monitor connecting while requests are in flight
			p.task = func() { w.subscribeStart(int(st.N), st.A) }
			return p
		}
		p.env = func() { w.subscribe(int(st.N), st.A) }
		return p
	}
	vfExtraOps["unsubscribe"] = func(w *vfWorld, st vfStep, p *vfPrepared) *vfPrepared {
		if st.Par != 0 || st.Serial {
			p.task = func() {
				if s := w.subs[int(st.N)]; s != nil && !s.closed {
					s.closed = true
					s.client.Close()
				}
			}
			return p
		}
		p.env = func() {
			if s := w.subs[int(st.N)]; s != nil && !s.closed {
				s.closed = true
				s.client.Close()
				w.fault("sub.close")
				synctest.Wait()
			}
		}
		return p
	}
	vfExtraOps["sub_resume"] = func(w *vfWorld, st vfStep, p *vfPrepared) *vfPrepared {
		p.env = func() {
			if s := w.subs[int(st.N)]; s != nil && s.mode == "stalled" {
				s.mode = "fast"
				select {
				case s.resume <- struct{}{}:
				default:
				}
				synctest.Wait()
				w.checkStreamIntegrity("after-resume")
			}
		}
		return p
	}
	// recorder workload: the real event recorder fed through its public channels
	vfExtraOps["rec_savefail"] = func(w *vfWorld, st vfStep, p *vfPrepared) *vfPrepared {
		p.env = func() { w.recSaveBlock(true) }
		return p
	}
	vfExtraOps["rec_saveheal"] = func(w *vfWorld, st vfStep, p *vfPrepared) *vfPrepared {
		p.env = func() { w.recSaveBlock(false) }
		return p
	}
	vfExtraOps["rec_event"] = func(w *vfWorld, st vfStep, p *vfPrepared) *vfPrepared {
		p.env = func() { w.recEvent(st) }
		return p
	}
	// the recorder workload does not involve the daemon: its background loops (state clean-up every
	// 30 s, dependency monitor, cache sync) are told to exit so that simulated months cost nothing
	vfExtraOps["quiesce_daemon"] = func(w *vfWorld, st vfStep, p *vfPrepared) *vfPrepared {
		p.env = func() {
			w.sched.mu.Lock()
			w.sched.bgStop = true
			w.sched.mu.Unlock()
			if w.state.dbDone != nil {
				close(w.state.dbDone)
				w.state.dbDone = nil
			}
			time.Sleep(61 * time.Second)
			synctest.Wait()
		}
		return p
	}
	vfExtraOps["rec_crash"] = func(w *vfWorld, st vfStep, p *vfPrepared) *vfPrepared {
		p.env = func() { w.recCrash() }
		return p
	}
	vfExtraOps["rec_check"] = func(w *vfWorld, st vfStep, p *vfPrepared) *vfPrepared {
		p.env = func() { w.recCheckLive() }
		return p
	}
	vfProfiles["C20"] = &vfProfile{
		Gen:    genEventsPlan,
		Expand: expandRecorderCrashes,
		Nontrivial: func(res *vfResult) bool {
			return res.Probes["cert-published-checked"] > 0 || res.Probes["recorder-reload-compared"] > 0
		},
		Rule:  "workload A: 0-3 subscribers attached through the real notifier (fast, stalled, disconnecting) while certificates are issued over the SSH, X.509, Kubernetes, role-requesting and refresh paths and web / service-provider logins happen; workload B: seeded event sequences fed to the real event recorder with clock advances (5 s save timer, hourly sweep, +-31 d retention) and, for every inter-event instant, a crash-and-reload variant (complete per sequence). non-trivial = at least one published certificate was compared byte for byte, or a reloaded history was compared; distinct = distinct canonical event log",
		Setup: eventsSetup,
		Final: eventsFinal,
	}
}

func eventsSetup(w *vfWorld) {
	w.detectBlocked = true
	// "each event is in the stream no later than the response": the notifier is handed a certificate while no
	// request is being served (sequential steps only) = it was published after its response had been completed
	vfhook.EventPublishCert = func(certType string, certData []byte) {
		if w.sched.concur || w.cur != nil {
			return
		}
		w.latePublishes.Add(1)
	}
	w.observers = append(w.observers, func(p *vfPrepared, ctx *vfReqCtx, resp *vfResp) {
		synctest.Wait()
		if n := w.latePublishes.Swap(0); n > 0 && p.step.Par == 0 {
			w.violate("C20", "published-after-response", "published-after-response:"+p.step.Op, fmt.Sprintf("%d certificate event(s) reached the notifier only after the response of %s had been completed", n, p.step.Op))
		}
		if p.call != nil && p.call.blocked {
			w.violate("C20", "issuance-blocked", "issuance-blocked:"+p.step.Op, fmt.Sprintf("%s did not complete within 120 simulated seconds while a subscriber was not reading", p.step.Op))
			return
		}
		iss := vfParseIssued(resp.Body)
		if resp.Code == 200 && iss != nil {
			var want []byte
			typ := eventmon.EventTypeSSHCert
			path := p.step.Op
			if iss.SSH != nil {
				want = iss.SSH.Marshal()
			} else {
				want = iss.X509.Raw
				typ = eventmon.EventTypeX509Cert
			}
			if p.intent.CertReq != nil {
				path = "certgen:" + p.intent.CertReq.Type
			}
			w.returnedCerts[string(want)]++
			for _, s := range w.subs {
				if s.mode != "fast" || s.closed || !s.connected || s.everStalled {
					continue
				}
				w.probe("cert-published-checked")
				found, typeOnly := false, false
				for _, ev := range s.events {
					if ev.Type == typ {
						typeOnly = true
						if bytes.Equal(ev.CertData, want) {
							found = true
						}
					}
				}
				if !found {
					cls := "cert-not-published"
					if typeOnly && len(s.events) > 0 && s.events[len(s.events)-1].Type == typ {
						cls = "bytes-differ"
					}
					w.violate("C20", cls, cls+":"+path, fmt.Sprintf("subscriber %d (draining) has no %s event with the bytes returned by %s (it has %d events)", s.id, typ, path, len(s.events)))
				}
			}
		}
		// login events
		if p.step.Op == "login" && p.step.B == "html" && resp.Code == 302 {
			w.expectEvent(eventmon.EventTypeWebLogin, w.model.norm(p.step.User), "weblogin")
		}
		if p.step.Op == "oidc_authorize" && resp.Code == 302 && strings.Contains(resp.Header.Get("Location"), "code=") {
			w.expectEvent(eventmon.EventTypeServiceProviderLogin, w.subjectOf(w.session(p.step.Sess)), "splogin")
		}
	})
}

// Whatever a subscriber received - also one that lagged behind and caught up later - is a certificate the daemon
// really returned, byte for byte, and not more often than it was returned.
func (w *vfWorld) checkStreamIntegrity(when string) {
	for _, s := range w.subs {
		got := map[string]int{}
		for _, ev := range s.events {
			if ev.Type != eventmon.EventTypeSSHCert && ev.Type != eventmon.EventTypeX509Cert {
				continue
			}
			got[string(ev.CertData)]++
		}
		for b, n := range got {
			switch ret := w.returnedCerts[b]; {
			case ret == 0:
				w.violate("C20", "bytes-differ", "bytes-differ:stream:"+when, fmt.Sprintf("subscriber %d received a certificate event whose bytes no response carried", s.id))
			case n > ret:
				w.violate("C20", "bytes-differ", "event-duplicated:stream:"+when, fmt.Sprintf("subscriber %d received the same certificate %d times, it was returned %d time(s): queued events were overwritten by a later one", s.id, n, ret))
			}
		}
		w.probe("stream-integrity-checked")
	}
}

func (w *vfWorld) expectEvent(typ, user, what string) {
	for _, s := range w.subs {
		if s.mode != "fast" || s.closed || !s.connected || s.everStalled {
			continue
		}
		w.probe("login-event-checked")
		found := false
		for _, ev := range s.events {
			if ev.Type == typ && ev.Username == user {
				found = true
			}
		}
		if !found {
			w.violate("C20", "login-not-published", "login-not-published:"+what, fmt.Sprintf("subscriber %d has no %s event for %s", s.id, typ, user))
		}
	}
}

func eventsFinal(w *vfWorld) {
	if w.aborted {
		return // a stuck publisher may hold the notifier's lock: leave every subscriber alone
	}
	w.checkStreamIntegrity("final")
	for _, s := range w.subs {
		if !s.closed {
			s.client.Close()
		}
	}
	if w.rec != nil {
		w.recCheckLive()
	}
}

// ---- recorder ----------------------------------------------------------------------------

type vfRecModelEvent struct {
	User string
	Kind string
	At   time.Time
}

func (w *vfWorld) recStart() {
	w.recFile = filepath.Join(w.dir, "eventmon-history.gob")
	r, err := eventrecorder.New(w.recFile, vfNopLogger{})
	if err != nil {
		panic(err)
	}
	w.rec = r
	synctest.Wait()
}

func (w *vfWorld) recEvent(st vfStep) {
	if w.rec == nil {
		w.recStart()
	}
	w.recAdvanceModel()
	now := time.Now()
	switch st.A {
	case "auth":
		w.rec.AuthChannel <- &eventrecorder.AuthInfo{AuthType: uint(1 + st.N%4), Username: st.User}
	case "weblogin":
		w.rec.WebLoginChannel <- st.User
	case "splogin":
		w.rec.ServiceProviderLoginChannel <- &eventrecorder.SPLoginInfo{URL: "https://sp.example.com/" + fmt.Sprint(st.N), Username: st.User}
	case "ssh":
		w.rec.SshCertChannel <- &ssh.Certificate{ValidPrincipals: []string{st.User}, ValidBefore: uint64(now.Add(time.Hour).Unix())}
	case "x509":
		c := &x509.Certificate{NotAfter: now.Add(2 * time.Hour)}
		c.Subject.CommonName = st.User
		w.rec.X509CertChannel <- c
	default:
		return
	}
	synctest.Wait() // one event per quiescence: the recorder's select never has two ready cases
	ev := vfRecModelEvent{User: st.User, Kind: st.A + fmt.Sprint(st.N%4), At: now}
	w.recLive = append(w.recLive, ev)
	w.recLastEvent = now
	w.recDirty = true
}

// the model's view of what a completed save contains
func (w *vfWorld) recAdvanceModel() {
	if w.recDirty && time.Since(w.recLastEvent) >= 5*time.Second {
		if w.recBlockOn && !w.recBlockFrom.After(w.recLastEvent.Add(5*time.Second)) {
			// the save attempt found the disk refusing: nothing was written and the timer is spent; the next event
			// arms it again and the save after that one carries everything
			w.recDirty = false
			w.probe("recorder-save-failed")
			return
		}
		w.recSaved = append([]vfRecModelEvent(nil), w.recLive...)
		w.recDirty = false
		w.recSavedOnce = true
	}
}

func (w *vfWorld) recFetch() eventrecorder.EventsMap {
	ch := make(chan eventrecorder.Events, 1)
	w.rec.RequestEventsChannel <- ch
	synctest.Wait()
	select {
	case e := <-ch:
		return e.Events
	default:
		return nil
	}
}

func recKind(e eventrecorder.EventType, want string) bool {
	switch {
	case strings.HasPrefix(want, "auth"):
		return e.AuthType != 0 && fmt.Sprint(e.AuthType-1) == want[4:] || (e.AuthType != 0 && fmt.Sprint((e.AuthType-1)%4) == want[4:])
	case strings.HasPrefix(want, "weblogin"):
		return e.WebLogin
	case strings.HasPrefix(want, "splogin"):
		return e.ServiceProviderUrl != ""
	case strings.HasPrefix(want, "ssh"):
		return e.Ssh
	case strings.HasPrefix(want, "x509"):
		return e.X509
	}
	return false
}

// compare the recorder's per-user lists (newest first) with a model list (oldest first)
func (w *vfWorld) recCompare(got eventrecorder.EventsMap, model []vfRecModelEvent, what string) {
	cutoff := time.Now().Add(-31 * 24 * time.Hour)
	want := map[string][]vfRecModelEvent{}
	for i := len(model) - 1; i >= 0; i-- { // newest first
		e := model[i]
		if e.At.Unix() < cutoff.Unix() {
			continue
		}
		want[e.User] = append(want[e.User], e)
	}
	for user, wl := range want {
		gl := got[user]
		if len(gl) != len(wl) {
			cls := "event-lost"
			if len(gl) > len(wl) {
				cls = "expired-kept"
			}
			w.violate("C20", cls, cls+":"+what, fmt.Sprintf("%s: user %s has %d events, expected %d", what, user, len(gl), len(wl)))
			continue
		}
		for i := range wl {
			if uint64(wl[i].At.Unix()) != gl[i].CreateTime || !recKind(gl[i], wl[i].Kind) {
				// same multiset in another order?
				rev := true
				for j := range wl {
					if uint64(wl[j].At.Unix()) != gl[len(gl)-1-j].CreateTime {
						rev = false
					}
				}
				cls := "event-changed"
				if rev && len(wl) > 1 {
					cls = "order-changed"
				}
				w.violate("C20", cls, cls+":"+what, fmt.Sprintf("%s: history of %s differs at position %d (newest first): got create=%d, want %s at %d", what, user, i, gl[i].CreateTime, wl[i].Kind, wl[i].At.Unix()))
				break
			}
		}
	}
	for user, gl := range got {
		if len(gl) > 0 && len(want[user]) == 0 {
			cls := "expired-kept"
			w.violate("C20", cls, cls+":"+what, fmt.Sprintf("%s: user %s has %d events, expected none", what, user, len(gl)))
		}
	}
}

func (w *vfWorld) recCheckLive() {
	if w.rec == nil {
		return
	}
	w.recAdvanceModel()
	got := w.recFetch()
	if got == nil {
		return
	}
	w.probe("recorder-live-compared")
	// the hourly sweep removes old entries only when it runs: give it one hour of slack
	w.recCompareLive(got)
}

func (w *vfWorld) recCompareLive(got eventrecorder.EventsMap) {
	// live view: events newer than 31 days must all be there, in order; older ones may linger up to the next sweep
	cutoff := time.Now().Add(-31 * 24 * time.Hour)
	want := map[string][]vfRecModelEvent{}
	for i := len(w.recLive) - 1; i >= 0; i-- {
		e := w.recLive[i]
		if e.At.Before(cutoff) {
			continue
		}
		want[e.User] = append(want[e.User], e)
	}
	for user, wl := range want {
		gl := got[user]
		if len(gl) < len(wl) {
			w.violate("C20", "event-lost", "event-lost:live", fmt.Sprintf("live view: user %s has %d events, expected at least %d", user, len(gl), len(wl)))
			continue
		}
		for i := range wl {
			if uint64(wl[i].At.Unix()) != gl[i].CreateTime {
				w.violate("C20", "order-changed", "order-changed:live", fmt.Sprintf("live view of %s differs at position %d", user, i))
				break
			}
		}
	}
}

// recSaveBlock: the directory entry the recorder's next save needs (<file>~) is taken by a directory, so creating the
// temporary file fails - a disk that refuses writes for a while.  No hook: the real fsutil.CreateRenamingWriter fails.
func (w *vfWorld) recSaveBlock(on bool) {
	if w.rec == nil || w.recBlockOn == on {
		return
	}
	w.recAdvanceModel()
	if on {
		if os.Mkdir(w.recFile+"~", 0o755) == nil {
			w.recBlockOn, w.recBlockFrom = true, time.Now()
			w.fault("disk.recorder.save.error")
		}
		return
	}
	os.Remove(w.recFile + "~")
	w.recBlockOn = false
}

// recCrash: the monitoring daemon is killed now and restarted from its file
func (w *vfWorld) recCrash() {
	if w.rec == nil {
		return
	}
	w.recSaveBlock(false)
	w.recAdvanceModel()
	w.fault("proc.crash")
	// The old recorder's goroutine is abandoned (it has no exit path) and, unlike a killed
	// process, could still write later: the restarted daemon gets a copy of the file as it is NOW
	// (the durable state at the crash instant) under a new name.
	w.recGen++
	next := fmt.Sprintf("%s.%d", strings.TrimSuffix(w.recFile, filepath.Ext(w.recFile)), w.recGen)
	if data, err := os.ReadFile(w.recFile); err == nil {
		os.WriteFile(next, data, 0o644)
	}
	w.recFile = next
	r, err := eventrecorder.New(w.recFile, vfNopLogger{})
	if err != nil {
		w.violate("C20", "reload-failed", "reload-failed", "recorder could not reload its history: "+err.Error())
		return
	}
	w.rec = r
	synctest.Wait()
	got := w.recFetch()
	w.probe("recorder-reload-compared")
	w.recCompare(got, w.recSaved, "after-restart")
	// the restarted daemon continues from what it loaded
	w.recLive = append([]vfRecModelEvent(nil), w.recSaved...)
	w.recDirty = false
	// a second reload without new events is idempotent
	w.recGen++
	again := fmt.Sprintf("%s.%d", w.recFile, w.recGen)
	if data, err := os.ReadFile(w.recFile); err == nil {
		os.WriteFile(again, data, 0o644)
	}
	w.recFile = again
	r2, err := eventrecorder.New(w.recFile, vfNopLogger{})
	if err == nil {
		w.rec = r2
		synctest.Wait()
		got2 := w.recFetch()
		if !reflect.DeepEqual(got, got2) {
			w.violate("C20", "reload-not-idempotent", "reload-not-idempotent", "two consecutive reloads of the same file give different histories")
		}
	}
}

func genEventsPlan(r *rand.Rand, tier string) *vfPlan {
	p := &vfPlan{Cfg: vfCfg{TOTP: true, VIP: true, PwBackend: "counting", GroupsLDAP: chance(r, 0.5), SyncInterval: "15m",
		CertBackends: []string{"U2F", "password", "IPCertificate"}, WebUIBackends: []string{"password", "U2F"}, Ed25519CA: chance(r, 0.5)}}
	add := func(s vfStep) { p.Steps = append(p.Steps, s) }
	if chance(r, 0.45) {
		// workload B: recorder
		users := []string{"alice", "bob", "carol"}
		add(vfStep{Op: "quiesce_daemon"})
		n := 4 + r.IntN(10)
		long := 0
		if chance(r, 0.15) {
			// the disk refuses one save; it recovers, more events arrive, the daemon is restarted later: nothing recorded
			// before or after the failed save may be missing
			for k := 0; k < 1+r.IntN(3); k++ {
				add(vfStep{Op: "rec_event", User: pick(r, users), A: pick(r, []string{"auth", "ssh", "x509"}), N: int64(r.IntN(8))})
			}
			add(vfStep{Op: "rec_savefail"})
			add(vfStep{Op: "advance", D: pick(r, []string{"6s", "8s", "1m"})})
			add(vfStep{Op: "rec_saveheal"})
			for k := 0; k < 1+r.IntN(3); k++ {
				add(vfStep{Op: "rec_event", User: pick(r, users), A: pick(r, []string{"auth", "weblogin", "x509"}), N: int64(r.IntN(8))})
				add(vfStep{Op: "advance", D: pick(r, []string{"1s", "6s"})})
			}
			add(vfStep{Op: "advance", D: "6s"})
			add(vfStep{Op: "rec_check"})
			n = 2 + r.IntN(4)
		} else if chance(r, 0.2) {
			// one user's oldest entries pass the retention while newer ones of the same user stay: the hourly sweep
			// has to unlink from the old end of a list that does not become empty
			u := pick(r, users)
			for k := 0; k < 1+r.IntN(3); k++ {
				add(vfStep{Op: "rec_event", User: u, A: pick(r, []string{"auth", "ssh", "x509"}), N: int64(r.IntN(8))})
			}
			add(vfStep{Op: "advance", D: pick(r, []string{"300h", "400h"})})
			for k := 0; k < 1+r.IntN(3); k++ {
				add(vfStep{Op: "rec_event", User: u, A: pick(r, []string{"auth", "weblogin", "x509"}), N: int64(r.IntN(8))})
			}
			add(vfStep{Op: "advance", D: pick(r, []string{"445h", "460h"})})
			add(vfStep{Op: "advance", D: "1h1m"})
			add(vfStep{Op: "rec_check"})
			add(vfStep{Op: "rec_event", User: u, A: "ssh", N: 1})
			long = 3
			n = 2 + r.IntN(4)
		}
		for i := 0; i < n; i++ {
			switch x := r.IntN(100); {
			case x < 60:
				add(vfStep{Op: "rec_event", User: pick(r, users), A: pick(r, []string{"auth", "weblogin", "splogin", "ssh", "x509"}), N: int64(r.IntN(8))})
			case x < 85:
				d := pick(r, []string{"1s", "4s", "6s", "6s", "1h1m", "10h", "743h", "745h", "300h"})
				if len(d) > 3 && d != "1h1m" {
					long++
					if long > 3 {
						d = "6s"
					}
				}
				add(vfStep{Op: "advance", D: d})
			default:
				add(vfStep{Op: "rec_check"})
			}
		}
		add(vfStep{Op: "advance", D: "6s"})
		add(vfStep{Op: "rec_crash"})
		if chance(r, 0.5) {
			add(vfStep{Op: "rec_event", User: pick(r, users), A: "x509", N: 1})
			add(vfStep{Op: "advance", D: pick(r, []string{"6s", "6s", "745h"})})
			add(vfStep{Op: "rec_crash"})
		}
		return p
	}
	// workload A: publisher
	p.Cfg.AwsRoles = chance(r, 0.5)
	nsub := r.IntN(4)
	for i := 1; i <= nsub; i++ {
		add(vfStep{Op: "subscribe", N: int64(i), A: pick(r, []string{"fast", "fast", "stalled"})})
	}
	if nsub == 0 || chance(r, 0.5) {
		add(vfStep{Op: "subscribe", N: 9, A: "fast"})
	}
	add(vfStep{Op: "mintsession", Sess: "u1", User: "alice", N: int64(AuthTypeU2F | AuthTypePassword)})
	add(vfStep{Op: "mintsession", Sess: "u2", User: "bob", N: int64(AuthTypeU2F | AuthTypePassword)})
	add(vfStep{Op: "mintsession", Sess: "adm", User: "root", N: int64(AuthTypeU2F | AuthTypePassword)})
	n := 8 + r.IntN(30)
	for i := 0; i < n; i++ {
		s := pick(r, []string{"u1", "u2"})
		u := map[string]string{"u1": "alice", "u2": "bob"}[s]
		switch x := r.IntN(100); {
		case x < 50:
			st := vfStep{Op: "certgen", Sess: s, User: u, A: pick(r, []string{"", "ssh", "x509", "x509-kubernetes"}), B: pick(r, []string{"user_p256_1", "user_rsa2048_1", "user_ed25519_1"}), D: pick(r, []string{"", "1h"})}
			if chance(r, 0.08) {
				// the requester hangs up while the certificate is being sent: it was signed all the same
				st.L = []string{"writefail"}
			}
			add(st)
		case x < 56 && p.Cfg.AwsRoles:
			add(vfStep{Op: "awsrole", A: pick(r, []string{"AKIAROLE1", "AKIAROLE1", "AKIAROLE2", "AKIAOTHER"}), B: pick(r, []string{"user_p256_1", "user_rsa2048_1"})})
		case x < 62:
			add(vfStep{Op: "rolecert", Sess: "adm", A: "auto1", L: []string{"10.0.0.0/8"}, B: "user_p256_3"})
		case x < 72:
			add(vfStep{Op: "rolerefresh", C: "cert:last:ipcert", Target: "10.1.2.3", B: "user_p256_2"})
		case x < 80:
			add(vfStep{Op: "login", Sess: "w1", User: pick(r, []string{"alice", "bob"}), B: "html"})
		case x < 86:
			add(vfStep{Op: "oidc_authorize", Sess: s, A: "clientA", L: []string{"method:nochallenge"}})
		case x < 90:
			add(vfStep{Op: "unsubscribe", N: int64(1 + r.IntN(3))})
		case x < 94:
			add(vfStep{Op: "subscribe", N: int64(4 + r.IntN(3)), A: pick(r, []string{"fast", "stalled"})})
		case x < 97:
			add(vfStep{Op: "sub_resume", N: int64(1 + r.IntN(3))})
		default:
			add(vfStep{Op: "advance", D: pick(r, []string{"1s", "10s"})})
		}
	}
	return p
}

// for every inter-event instant of a recorder history: a crash-and-reload variant
func expandRecorderCrashes(base *vfPlan, res *vfResult) []*vfPlan {
	var out []*vfPlan
	isRec := false
	for _, s := range base.Steps {
		if s.Op == "rec_event" {
			isRec = true
		}
	}
	if !isRec {
		return nil
	}
	for i := range base.Steps {
		if base.Steps[i].Op == "rec_crash" || i == 0 {
			continue
		}
		d := *base
		d.Steps = append([]vfStep(nil), base.Steps[:i]...)
		d.Steps = append(d.Steps, vfStep{Op: "rec_crash"})
		d.Steps = append(d.Steps, base.Steps[i:]...)
		d.Variant = fmt.Sprintf("crash-before-step-%d", i)
		out = append(out, &d)
	}
	return out
}

var _ = io.EOF
