package main

// C04: signed tokens are unforgeable and never accepted outside their purpose.
// C12: OpenID tokens go only to the right client and name the right user.
//
// Honest flows mint every artefact kind; a Byzantine client then presents
// artefacts (authentic, expired, delayed, corrupted in flight, re-signed with
// other keys/algorithms, single-claim mutants) to every token consumer.

import (
	"crypto/sha256"
	"encoding/base64"
	"encoding/json"
	"fmt"
	"math/rand/v2"
	"net/url"
	"strings"
	"time"

	"github.com/go-jose/go-jose/v4"
)

func opt(l []string, key, def string) string {
	for _, s := range l {
		if strings.HasPrefix(s, key+":") {
			return s[len(key)+1:]
		}
	}
	return def
}

func vfClient(id string) *vfOIDCClient {
	for i := range vfOIDCClients {
		if vfOIDCClients[i].ID == id {
			return &vfOIDCClients[i]
		}
	}
	return nil
}

func vfRedirectFor(client string, which string) string {
	c := vfClient(client)
	if c == nil {
		return "https://nowhere.example.net/cb"
	}
	switch which {
	case "other":
		return "https://app." + c.Domains[0] + "/other"
	case "foreign":
		return "https://evil.example.net/cb"
	}
	return "https://" + c.Domains[0] + "/cb"
}

func init() {
	// A: client; L: redirect:same|other|foreign, method:S256|plain|none|unknown|nochallenge, nonce:yes|no|short, aud:<url>
	vfExtraOps["oidc_authorize"] = func(w *vfWorld, st vfStep, p *vfPrepared) *vfPrepared {
		s := w.session(st.Sess)
		redirect := vfRedirectFor(st.A, opt(st.L, "redirect", "same"))
		q := url.Values{"response_type": {"code"}, "client_id": {st.A}, "scope": {"openid"}, "redirect_uri": {redirect}, "state": {"st-" + st.Sess}}
		nonce := ""
		switch opt(st.L, "nonce", "yes") {
		case "yes":
			nonce = fmt.Sprintf("nonce-%s-%d", st.Sess, len(w.model.arts))
			q.Set("nonce", nonce)
		case "short":
			q.Set("nonce", "abc")
		}
		verifier := fmt.Sprintf("verifier-%s-%d-0123456789abcdefghijklmnopqrstuvwxyz", st.Sess, len(w.model.arts))
		method := opt(st.L, "method", "S256")
		challenge := ""
		switch method {
		case "S256":
			sum := sha256.Sum256([]byte(verifier))
			challenge = base64.RawURLEncoding.EncodeToString(sum[:])
			q.Set("code_challenge", challenge)
			q.Set("code_challenge_method", "S256")
		case "none": // a challenge without a method: "plain" by RFC 7636
			challenge = verifier
			q.Set("code_challenge", challenge)
		case "plain", "unknown":
			challenge = verifier
			q.Set("code_challenge", challenge)
			q.Set("code_challenge_method", map[string]string{"plain": "plain", "unknown": "S512"}[method])
		case "nochallenge":
			verifier = ""
		}
		if a := opt(st.L, "aud", ""); a != "" {
			q.Set("audience", a)
		}
		r := w.baseReq(s, "GET", "/idp/oauth2/authorize?"+q.Encode())
		p.call = w.prepare(r)
		p.intent.Op = "oidc_authorize"
		subject := w.subjectOf(s)
		p.after = func(resp *vfResp) {
			if resp.Code != 302 {
				return
			}
			loc, err := url.Parse(resp.Header.Get("Location"))
			if err != nil {
				return
			}
			code := loc.Query().Get("code")
			if code == "" {
				return
			}
			w.probe("code-issued")
			want, _ := url.Parse(redirect)
			if loc.Host != want.Host || loc.Scheme != "https" {
				w.violate("C12", "code-to-wrong-host", "code-to-wrong-host", fmt.Sprintf("authorization code for %s redirected to %s", st.A, loc.Host))
			}
			a := &vfArtefact{Kind: "code", Value: code, Subject: subject, Client: st.A, Redirect: redirect, Verifier: verifier,
				Challenge: method, Nonce: nonce, Exp: time.Now().Add(5 * time.Minute), AuthAt: time.Now()}
			w.model.addArt(a)
			if pl := vfJWTPayload(code); pl != nil {
				if jstr(pl, "username") != subject {
					w.violate("C12", "wrong-subject", "wrong-subject:code", fmt.Sprintf("code names %q, session user is %q", jstr(pl, "username"), subject))
				}
			}
		}
		return p
	}
	// A: artefact presented as code; B: client presenting; L: secret:right|wrong|absent, verifier:right|wrong|absent, redirect:same|other, auth:header|form
	vfExtraOps["oidc_token"] = func(w *vfWorld, st vfStep, p *vfPrepared) *vfPrepared {
		a := w.art(st.A)
		if a == nil {
			return nil
		}
		cl := vfClient(st.B)
		secret := ""
		switch opt(st.L, "secret", "right") {
		case "right":
			if cl != nil {
				secret = cl.Secret
			}
		case "wrong", "invented":
			secret = "wrong-secret-000" // for a client without a secret: an invented one
		}
		verifier := ""
		switch opt(st.L, "verifier", "absent") {
		case "right":
			verifier = a.Verifier
		case "wrong":
			verifier = "wrong-verifier-0123456789abcdefghijklmnopqrstuvwxyz0123"
		case "challenge":
			// the challenge string itself (what the authorization request carried, visible to anyone who saw it)
			if a.Verifier != "" {
				sum := sha256.Sum256([]byte(a.Verifier))
				verifier = base64.RawURLEncoding.EncodeToString(sum[:])
			}
		}
		redirect := a.Redirect
		if redirect == "" {
			redirect = vfRedirectFor(st.B, "same")
		}
		switch opt(st.L, "redirect", "same") {
		case "other":
			redirect = vfRedirectFor(st.B, "other")
		case "extend":
			redirect = redirect + "2/other" // begins with the authorized one
		case "hostsuffix":
			if u, err := url.Parse(redirect); err == nil {
				u.Host += ".evil.example.org"
				redirect = u.String()
			}
		}
		form := url.Values{"grant_type": {"authorization_code"}, "code": {a.Value}, "redirect_uri": {redirect}}
		if verifier != "" {
			form.Set("code_verifier", verifier)
		}
		r := &vfReq{Method: "POST", Path: "/idp/oauth2/token", Header: map[string]string{}}
		if opt(st.L, "auth", "header") == "header" && secret != "" {
			r.Basic = &[2]string{url.QueryEscape(st.B), url.QueryEscape(secret)}
		} else if opt(st.L, "auth", "header") == "header-empty" {
			r.Basic = &[2]string{url.QueryEscape(st.B), ""} // client named in the Authorization header, empty password
		} else {
			form.Set("client_id", st.B)
			if secret != "" {
				form.Set("client_secret", secret)
			}
		}
		r.Form = form
		p.call = w.prepare(r)
		p.intent.Op = "oidc_token"
		p.intent.Token = &vfTokenReq{Art: a, Client: st.B, Secret: opt(st.L, "secret", "right"), Verifier: opt(st.L, "verifier", "absent"), SameRedirect: redirect == a.Redirect}
		if opt(st.L, "auth", "header") == "header-empty" {
			p.intent.Token.Secret = "absent" // whatever the plan said about the secret: this request carries none
		}
		return p
	}
	// A: artefact presented as bearer access token; L: via:header|form
	vfExtraOps["oidc_userinfo"] = func(w *vfWorld, st vfStep, p *vfPrepared) *vfPrepared {
		a := w.art(st.A)
		if a == nil {
			return nil
		}
		r := &vfReq{Method: "GET", Path: "/idp/oauth2/userinfo", Header: map[string]string{"Authorization": "Bearer " + a.Value}}
		if opt(st.L, "via", "header") == "form" {
			r = &vfReq{Method: "POST", Path: "/idp/oauth2/userinfo", Form: url.Values{"access_token": {a.Value}}, Header: map[string]string{}}
		}
		p.call = w.prepare(r)
		p.intent.Op = "oidc_userinfo"
		p.intent.Present = &vfPresent{Art: a, Consumer: "userinfo"}
		return p
	}
	// forge: A: source artefact; B: how (foreignkey|none|hs256|corrupt:<part>|claim:<name>|resign); produces a new (inauthentic) artefact
	vfExtraOps["forge"] = func(w *vfWorld, st vfStep, p *vfPrepared) *vfPrepared {
		p.env = func() { w.forge(st) }
		return p
	}
	// present: A: artefact; B: consumer (session|token|userinfo|clisend|cliverify|storage)
	vfExtraOps["present"] = func(w *vfWorld, st vfStep, p *vfPrepared) *vfPrepared {
		a := w.art(st.A)
		if a == nil {
			return nil
		}
		var r *vfReq
		switch st.B {
		case "session":
			r = &vfReq{Method: "GET", Path: "/profile/", Cookies: map[string]string{authCookieName: a.Value}, Header: map[string]string{"Accept": "text/html"}}
		case "sessionpost":
			r = &vfReq{Method: "POST", Path: "/api/v0/manageTOTPToken", Cookies: map[string]string{authCookieName: a.Value}, Header: map[string]string{},
				Form: url.Values{"username": {a.Subject}, "index": {"0"}, "action": {"Update"}, "name": {"x"}}}
		case "certgen":
			r = &vfReq{Method: "POST", Path: "/certgen/" + a.Subject, Cookies: map[string]string{authCookieName: a.Value}, Header: map[string]string{},
				Multi: map[string]string{"@pubkeyfile": vfKey("user_p256_1").sshPub()}}
		case "token":
			cid := a.Client
			if cid == "" {
				cid = "clientA"
			}
			redir := a.Redirect
			if redir == "" {
				redir = vfRedirectFor(cid, "same")
			}
			form := url.Values{"grant_type": {"authorization_code"}, "code": {a.Value}, "redirect_uri": {redir}}
			r = &vfReq{Method: "POST", Path: "/idp/oauth2/token", Form: form, Header: map[string]string{}}
			if c := vfClient(cid); c != nil && c.Secret != "" {
				r.Basic = &[2]string{cid, c.Secret}
			} else {
				form.Set("client_id", cid)
				form.Set("code_verifier", a.Verifier+"x")
			}
		case "tokenother":
			// the code is redeemed by ANOTHER registered client, with everything else right (redirect, verifier, that client's own secret)
			if a.Client == "" {
				return nil
			}
			var other *vfOIDCClient
			for i := range vfOIDCClients {
				c := &vfOIDCClients[(i+int(st.N))%len(vfOIDCClients)]
				if c.ID != a.Client && (c.Secret == "") == (vfClient(a.Client) != nil && vfClient(a.Client).Secret == "") {
					other = c
					break
				}
			}
			if other == nil {
				return nil
			}
			form := url.Values{"grant_type": {"authorization_code"}, "code": {a.Value}, "redirect_uri": {a.Redirect}}
			r = &vfReq{Method: "POST", Path: "/idp/oauth2/token", Form: form, Header: map[string]string{}}
			if other.Secret != "" {
				r.Basic = &[2]string{other.ID, other.Secret}
			} else {
				form.Set("client_id", other.ID)
			}
			if a.Verifier != "" {
				form.Set("code_verifier", a.Verifier)
			}
		case "certgencert":
			// the cookie travels together with a (valid) keymaster client certificate of the same user; where the
			// certificate alone does not suffice for a certificate, the answer shows whether the cookie was counted
			uc := w.art("last:usercert:" + a.Subject)
			if uc == nil || uc.Cert == nil || containsStr(w.cfg.CertBackends, "password") {
				return nil
			}
			r = &vfReq{Method: "POST", Path: "/certgen/" + a.Subject, Cookies: map[string]string{authCookieName: a.Value}, Header: map[string]string{},
				Multi: map[string]string{"@pubkeyfile": vfKey("user_p256_1").sshPub()}, Cert: uc.Cert}
		case "userinfo":
			r = &vfReq{Method: "GET", Path: "/idp/oauth2/userinfo", Header: map[string]string{"Authorization": "Bearer " + a.Value}}
		case "clisendother":
			// a CLI token handed to the browser session of another user
			otherUser := "bob"
			if a.Subject == "bob" {
				otherUser = "alice"
			}
			ck := w.setupCookie(otherUser)
			r = &vfReq{Method: "GET", Path: "/sendAuthDocument?port=4000&token=" + url.QueryEscape(a.Value), Cookies: map[string]string{authCookieName: ck}, Header: map[string]string{}}
		case "storageother":
			p.env = func() { w.presentStorageAs(a, true) }
			return p
		case "cliverify":
			r = &vfReq{Method: "GET", Path: "/verifyAuthToken?token=" + url.QueryEscape(a.Value), Header: map[string]string{}}
		case "clisend":
			ck := w.setupCookie(a.Subject)
			r = &vfReq{Method: "GET", Path: "/sendAuthDocument?port=4000&token=" + url.QueryEscape(a.Value), Cookies: map[string]string{authCookieName: ck}, Header: map[string]string{}}
		case "storage":
			p.env = func() { w.presentStorage(a) }
			return p
		default:
			return nil
		}
		p.call = w.prepare(r)
		p.intent.Op = "present:" + st.B
		p.intent.Present = &vfPresent{Art: a, Consumer: st.B}
		return p
	}
	// a signed storage record minted through the real storage API
	vfExtraOps["mint_storage"] = func(w *vfWorld, st vfStep, p *vfPrepared) *vfPrepared {
		p.env = func() {
			exp := time.Now().Add(time.Hour)
			if err := w.state.UpsertSigned(st.User, 7, exp.Unix(), "payload-"+st.User); err != nil {
				return
			}
			var jws string
			if err := w.rawDB(profileDBFilename).QueryRow("SELECT jws_data FROM expiring_signed_user_data WHERE username=? AND type=7", st.User).Scan(&jws); err == nil {
				w.model.addArt(&vfArtefact{Kind: "storage", Value: jws, Subject: st.User, Exp: exp, AuthAt: time.Now()})
			}
		}
		return p
	}

	for _, id := range []string{"C04", "C12"} {
		id := id
		vfProfiles[id] = &vfProfile{
			Gen:   func(r *rand.Rand, tier string) *vfPlan { return genTokenPlan(r, tier, id) },
			Setup: tokenSetup,
		}
	}
	vfProfiles["C04"].Nontrivial = func(res *vfResult) bool {
		return res.Probes["artefact-honoured"] > 0 && res.Probes["artefact-refused"] > 1
	}
	vfProfiles["C04"].Rule = "honest flows mint session cookies, upgraded cookies, OIDC codes (with/without PKCE), ID tokens, access tokens, CLI tokens and signed storage records; a Byzantine client presents every artefact to every token consumer (session endpoints GET/POST/certgen, token endpoint, userinfo, CLI send/verify, storage GetSigned): as is, after expiry (clock), corrupted in flight (header/payload/signature), re-signed with a foreign key of the same algorithm, alg:none, HS256 keyed with the public key, and single-claim mutants (iss, aud, token_type/type, nbf, exp, sub) re-signed with the deployment key. non-trivial = at least one artefact honoured and two refused in the run; distinct = distinct canonical event log"
	vfProfiles["C12"].Nontrivial = func(res *vfResult) bool { return res.Probes["tokens-released"] > 0 && res.Probes["tokens-refused"] > 0 }
	vfProfiles["C12"].Rule = "two to three users with web-UI sessions; clients A (secret), B (secret-less, PKCE), C (secret, other domains); seeded sequences of authorize (redirect same/other/foreign, challenge S256/none/plain/unknown/absent, nonce, audience) and token requests over all combinations of presenting client, secret right/wrong/absent (header or form), verifier right/wrong/absent, redirect same/different, code fresh/expired by clock/corrupted/issued to another client/other artefact kind; userinfo with access token, ID token, cookie, code. non-trivial = tokens released at least once and refused at least once; distinct = distinct canonical event log"
}

// issuers of other deployments, including ones this server's own issuer URL is a prefix of
func vfForeignIssuer(n int) string {
	return []string{"https://other-keymaster.sim", vfIssuer + ":8443", vfIssuer + ".staging.example.net", vfIssuer + "/"}[n%4]
}

type vfTokenReq struct {
	Art          *vfArtefact
	Client       string
	Secret       string
	Verifier     string
	SameRedirect bool
}

type vfPresent struct {
	Art      *vfArtefact
	Consumer string
}

func (w *vfWorld) forge(st vfStep) {
	src := w.art(st.A)
	if src == nil || src.Forged != "" {
		return
	}
	how := st.B
	val := ""
	mut := func(name string) func(m map[string]any) {
		return func(m map[string]any) {
			switch name {
			case "iss":
				m["iss"] = vfForeignIssuer(int(st.N))
			case "aud":
				m["aud"] = []string{vfForeignIssuer(int(st.N))}
			case "kind":
				if _, ok := m["token_type"]; ok {
					m["token_type"] = map[string]string{"keymaster_auth": "keymaster_webauth_for_cli_identity", "keymaster_webauth_for_cli_identity": "keymaster_auth", "storage_data": "keymaster_auth"}[fmt.Sprint(m["token_type"])]
				} else {
					m["type"] = map[string]string{"token_endpoint": "bearer", "bearer": "token_endpoint"}[fmt.Sprint(m["type"])]
				}
			case "nbf":
				m["nbf"] = time.Now().Add(2 * time.Hour).Unix()
			case "exp":
				m["exp"] = time.Now().Add(-2 * time.Hour).Unix()
			case "sub":
				for _, k := range []string{"sub", "username"} {
					if v, ok := m[k]; ok && (k == "username" || m["token_type"] != nil) {
						if fmt.Sprint(v) == "alice" {
							m[k] = "bob"
						} else {
							m[k] = "alice"
						}
					}
				}
			case "level":
				m["auth_type"] = 0xFFFF
			}
		}
	}
	switch {
	case how == "foreignkey":
		val = vfResignJWT(src.Value, "ca_rsa_alt", nil)
	case how == "jwkembed":
		val = vfJWKEmbed(src.Value, true)
	case how == "kidclaim":
		val = vfJWKEmbed(src.Value, false)
	case how == "sibling":
		// what another server of the same deployment would mint: same keys, same configuration file (no
		// host_identity in it), another host name - its tokens name *it* as issuer and audience, not this server
		if !w.cfg.NoHostIdentity || !(src.Kind == "cookie" || src.Kind == "clitoken" || src.Kind == "storage") {
			return
		}
		own := w.state.HostIdentity
		w.state.HostIdentity = "keymaster-b.sim"
		iss := w.state.idpGetIssuer()
		w.state.HostIdentity = own
		val = vfResignJWT(src.Value, "ca_rsa", func(m map[string]any) {
			m["iss"] = iss
			if _, ok := m["aud"].([]any); ok {
				m["aud"] = []string{iss}
			} else if _, ok := m["aud"].(string); ok {
				m["aud"] = iss
			} else {
				m["aud"] = []string{iss}
			}
			m["jti"] = "sibling"
		})
		w.probe("sibling-server-token-forged")
	case how == "none":
		val = vfAlgNone(src.Value, nil)
	case how == "hs256":
		val = vfHS256WithPublic(src.Value, vfKey("ca_rsa").pkixDER(), nil)
	case how == "hs256pem":
		val = vfHS256WithPublic(src.Value, []byte(vfKey("ca_rsa").pkixPEM()), nil)
	case strings.HasPrefix(how, "corrupt:"):
		part := map[string]int{"header": 0, "payload": 1, "signature": 2}[how[8:]]
		val = vfCorrupt(src.Value, part, int(st.N)+3)
	case strings.HasPrefix(how, "claim:"):
		// a token "of another keymaster deployment/purpose": same key, one claim off.
		// Only claims the kind really carries and whose value the consumer must check.
		c := how[6:]
		hasNbfIssAud := src.Kind == "cookie" || src.Kind == "clitoken" || src.Kind == "storage"
		switch {
		case c == "exp":
		case (c == "nbf" || c == "iss" || c == "aud") && hasNbfIssAud:
		case c == "iss" && src.Kind == "access":
		default:
			return
		}
		if src.Forged != "" {
			return
		}
		val = vfResignJWT(src.Value, "ca_rsa", mut(c))
	case strings.HasPrefix(how, "fclaim:"):
		val = vfResignJWT(src.Value, "ca_rsa_alt", mut(how[7:]))
	}
	if val == "" || val == src.Value {
		return
	}
	a := *src
	a.Value, a.Forged, a.ID = val, how, 0
	if how == "claim:nbf" {
		a.NotBefore = time.Now().Add(2 * time.Hour)
	}
	w.model.addArt(&a)
	w.fault("net.corrupt")
}

// presentStorage: the artefact is put where a signed storage record lives and read through GetSigned
func (w *vfWorld) presentStorage(a *vfArtefact) { w.presentStorageAs(a, false) }

// other: the record is filed under another user's name
func (w *vfWorld) presentStorageAs(a *vfArtefact, other bool) {
	user := a.Subject
	if user == "" {
		user = "alice"
	}
	if other {
		if user == "bob" {
			user = "alice"
		} else {
			user = "bob"
		}
		w.rawExec(profileDBFilename, "INSERT OR REPLACE INTO expiring_signed_user_data(username,type,jws_data,expiration_epoch,update_epoch) VALUES(?,7,?,?,?)",
			user, a.Value, time.Now().Add(time.Hour).Unix(), time.Now().Unix())
		ok, _, err := w.state.GetSigned(user, 7)
		w.judgePresent(a, "storageother", ok && err == nil, false, nil)
		w.rawExec(profileDBFilename, "DELETE FROM expiring_signed_user_data WHERE type=7 AND username=?", user)
		return
	}
	w.rawExec(profileDBFilename, "INSERT OR REPLACE INTO expiring_signed_user_data(username,type,jws_data,expiration_epoch,update_epoch) VALUES(?,9,?,?,?)",
		user, a.Value, time.Now().Add(time.Hour).Unix(), time.Now().Unix())
	ok, _, err := w.state.GetSigned(user, 9)
	honoured := ok && err == nil
	expect := a.Kind == "storage" && a.Forged == "" && time.Now().Before(a.Exp)
	w.judgePresent(a, "storage", honoured, expect, nil)
	w.rawExec(profileDBFilename, "DELETE FROM expiring_signed_user_data WHERE type=9")
}

func (w *vfWorld) judgePresent(a *vfArtefact, consumer string, honoured, expect bool, resp *vfResp) {
	if d := time.Until(a.Exp); a.Forged == "" && d > -time.Second && d < time.Second {
		return // token times are whole seconds: within a second of the expiry either answer is right
	}
	if a.Forged == "claim:nbf" {
		// signed by the deployment's key, identical but for a not-before two hours after forging:
		// an authentic token once that instant has passed
		if !time.Now().Before(a.NotBefore) {
			return
		}
	}
	if honoured {
		w.probe("artefact-honoured")
	} else {
		w.probe("artefact-refused")
	}
	w.cell(fmt.Sprintf("C04|kind=%s|forged=%s|consumer=%s|honoured=%v", a.Kind, a.Forged, consumer, honoured))
	if honoured && !expect {
		cls := "kind-confusion"
		switch {
		case a.Forged == "foreignkey" || a.Forged == "jwkembed" || a.Forged == "kidclaim" || strings.HasPrefix(a.Forged, "fclaim:"):
			cls = "foreign-key-accepted"
		case a.Forged == "none" || strings.HasPrefix(a.Forged, "hs256"):
			cls = "alg-accepted"
		case strings.HasPrefix(a.Forged, "corrupt:"):
			cls = "corrupted-accepted"
		case a.Forged == "sibling":
			cls = "other-server-token-accepted"
		case strings.HasPrefix(a.Forged, "claim:"):
			cls = "claim-ignored"
		case a.Forged == "" && !time.Now().Before(a.Exp) && vfKindFits(a.Kind, consumer):
			cls = "expired-accepted"
		case a.Forged == "" && (consumer == "storageother" || consumer == "tokenother" || consumer == "clisendother"):
			cls = "honoured-for-other-party" // authentic and of the right kind, but bound to another user / client
		}
		key := cls + ":" + a.Kind + "->" + consumer
		if strings.HasPrefix(a.Forged, "claim:") {
			key = cls + ":" + a.Forged[6:] + ":" + a.Kind + "->" + consumer
		}
		w.violate("C04", cls, key, fmt.Sprintf("%s artefact (%s, forged=%q, exp in %v) was honoured by consumer %s", a.Kind, a.Subject, a.Forged, time.Until(a.Exp).Round(time.Second), consumer))
	}
	if consumer == "certgencert" {
		expect = honoured // a password-level cookie rightly does not suffice here: only being counted wrongly is judged
	}
	if !honoured && expect && w.cleanWindow() {
		w.violate("C04", "authentic-refused", "authentic-refused:"+a.Kind+"->"+consumer, fmt.Sprintf("an authentic, unexpired %s artefact was refused by %s", a.Kind, consumer))
	}
}

func vfKindFits(kind, consumer string) bool {
	switch consumer {
	case "session", "sessionpost", "certgen", "certgencert":
		return kind == "cookie"
	case "token":
		return kind == "code"
	case "userinfo":
		return kind == "access"
	case "clisend", "cliverify":
		return kind == "clitoken"
	case "storage":
		return kind == "storage"
	}
	return false
}

func tokenSetup(w *vfWorld) {
	w.observers = append(w.observers, func(p *vfPrepared, ctx *vfReqCtx, resp *vfResp) {
		// every auth cookie the server hands out is an artefact the adversary may reuse
		if c, ok := resp.Cookies[authCookieName]; ok && c.Value != "" {
			if ci := w.model.cookies[c.Value]; ci != nil {
				w.model.addArt(&vfArtefact{Kind: "cookie", Value: c.Value, Subject: ci.Subject, Exp: ci.Exp, AuthAt: ci.AuthAt})
			}
		}
		if tr := p.intent.Token; tr != nil {
			w.observeToken(ctx, tr, resp)
		}
		if pr := p.intent.Present; pr != nil {
			w.observePresent(ctx, pr, resp)
		}
		// "rejected without side effects": a refusal that hands out a session is a side effect
		for _, v := range w.res.Violations {
			if v.Prop == "C05" && v.Step == w.stepIdx && v.Class == "session-in-refusal" {
				w.violate("C04", "refusal-with-side-effect", "refusal-with-side-effect:"+p.intent.Op, v.Detail)
			}
		}
	})
}

func (w *vfWorld) observeToken(ctx *vfReqCtx, tr *vfTokenReq, resp *vfResp) {
	a := tr.Art
	var out struct {
		AccessToken string `json:"access_token"`
		IDToken     string `json:"id_token"`
		ExpiresIn   int    `json:"expires_in"`
	}
	released := resp.Code == 200 && json.Unmarshal(resp.Body, &out) == nil && out.IDToken != ""
	cl := vfClient(tr.Client)
	// expectation from the statement
	expect, judged := false, true
	why := ""
	switch {
	case a.Kind != "code" || a.Forged != "":
		why = "not an authentic authorization code"
	case cl == nil:
		why = "unknown client"
	case a.Client != tr.Client:
		why = "code was issued to " + a.Client
	case time.Now().After(a.Exp.Add(time.Second)):
		why = "code expired"
	case time.Now().After(a.Exp.Add(-time.Second)):
		// token times are whole seconds: within a second of the five minutes either answer is right
		judged = false
	case !tr.SameRedirect:
		why = "redirect_uri differs"
	case cl.Secret != "":
		switch {
		case tr.Secret == "right" && tr.Verifier == "absent":
			expect = true
		case tr.Secret == "right":
			judged = false // a client with a secret also sending a verifier: left open
		default:
			why = "client secret not proven"
		}
	default: // secret-less client: PKCE
		boundOK := a.Verifier != "" && (a.Challenge == "S256" || a.Challenge == "none")
		if tr.Verifier == "right" && boundOK {
			expect = true
		} else {
			why = "PKCE verifier does not match a challenge bound into the code"
		}
	}
	w.cell(fmt.Sprintf("C12|code=%s/%s|client=%s|secret=%s|verifier=%s|sameredir=%v|released=%v", a.Kind, a.Forged, tr.Client, tr.Secret, tr.Verifier, tr.SameRedirect, released))
	if released {
		w.probe("tokens-released")
	} else {
		w.probe("tokens-refused")
	}
	if released && judged && !expect {
		cls := "tokens-to-wrong-client"
		switch {
		case strings.Contains(why, "expired"):
			cls = "expired-code"
		case strings.Contains(why, "redirect"):
			cls = "redirect-mismatch-accepted"
		case strings.Contains(why, "PKCE"):
			cls = "pkce-bypassed"
		case strings.Contains(why, "secret"):
			cls = "secret-not-required"
		case strings.Contains(why, "authentic"):
			cls = "non-code-accepted"
		}
		w.violate("C12", cls, cls, fmt.Sprintf("token endpoint released tokens to %s although: %s", tr.Client, why))
	}
	if !released && judged && expect && w.cleanWindow() {
		w.violate("C12", "rightful-client-refused", fmt.Sprintf("rightful-client-refused:%d", resp.Code), fmt.Sprintf("client %s proved itself with a fresh code but was answered %d", tr.Client, resp.Code))
	}
	if !released {
		if k := w.signedIn(resp); k != "" {
			w.violate("C12", "signed-in-refusal", "signed-in-refusal", "refusing token response contains "+k)
		}
		return
	}
	if a.Kind != "code" {
		return
	}
	// ID token contents
	pl := vfJWTPayload(out.IDToken)
	bad := func(what string) {
		w.violate("C12", "bad-idtoken", "bad-idtoken:"+what, fmt.Sprintf("ID token for code of (%s,%s): %s; claims=%v", a.Client, a.Subject, what, pl))
	}
	if pl == nil {
		bad("undecodable")
		return
	}
	if jstr(pl, "iss") != vfIssuer {
		bad("iss")
	}
	if aud, ok := pl["aud"].([]any); !ok || len(aud) != 1 || fmt.Sprint(aud[0]) != a.Client {
		bad("aud")
	}
	if jstr(pl, "sub") != a.Subject {
		w.violate("C12", "wrong-subject", "wrong-subject:idtoken", fmt.Sprintf("ID token names %q; the user logged in at authorization was %q", jstr(pl, "sub"), a.Subject))
	}
	if jstr(pl, "nonce") != a.Nonce {
		bad("nonce")
	}
	if exp := jnum(pl, "exp"); exp > a.AuthAt.Add(16*time.Hour).Unix()+1 {
		bad("exp-beyond-16h")
	}
	if !w.verifiesUnderJWKS(out.IDToken) {
		bad("signature-not-under-jwks")
	}
	w.model.addArt(&vfArtefact{Kind: "idtoken", Value: out.IDToken, Subject: a.Subject, Client: a.Client, Exp: time.Unix(jnum(pl, "exp"), 0), AuthAt: a.AuthAt})
	apl := vfJWTPayload(out.AccessToken)
	if apl == nil {
		bad("access-undecodable")
		return
	}
	if jstr(apl, "username") != a.Subject {
		w.violate("C12", "wrong-subject", "wrong-subject:access", fmt.Sprintf("access token names %q, expected %q", jstr(apl, "username"), a.Subject))
	}
	w.model.addArt(&vfArtefact{Kind: "access", Value: out.AccessToken, Subject: a.Subject, Client: a.Client, Exp: time.Unix(jnum(apl, "exp"), 0), AuthAt: a.AuthAt})
}

func (w *vfWorld) verifiesUnderJWKS(tok string) bool {
	r := w.serve(&vfReq{Method: "GET", Path: "/idp/oauth2/jwks"})
	var set jose.JSONWebKeySet
	if r.Code != 200 || json.Unmarshal(r.Body, &set) != nil {
		return false
	}
	obj, err := jose.ParseSigned(tok, []jose.SignatureAlgorithm{jose.RS256, jose.ES256, jose.ES384, jose.EdDSA})
	if err != nil {
		return false
	}
	for _, k := range set.Keys {
		if _, err := obj.Verify(k); err == nil {
			return true
		}
	}
	return false
}

func (w *vfWorld) observePresent(ctx *vfReqCtx, pr *vfPresent, resp *vfResp) {
	a := pr.Art
	honoured := false
	switch pr.Consumer {
	case "session":
		honoured = resp.Code == 200
	case "sessionpost":
		// admitted requests get past authentication: 400 (bad index) or 200; refused ones 401/500("error")
		honoured = resp.Code == 400 || resp.Code == 200 || resp.Code == 302
		if resp.Code == 500 && strings.TrimSpace(string(resp.Body)) != "error" {
			honoured = true
		}
	case "certgen":
		honoured = resp.Code == 200 || resp.Code == 403 || resp.Code == 400
		if resp.Code == 401 && strings.Contains(string(resp.Body), "Not enough auth level") {
			honoured = true // authenticated, only the level was insufficient
		}
	case "certgencert":
		honoured = resp.Code == 200 // the certificate alone gets "not enough auth level"
	case "token", "tokenother":
		honoured = resp.Code == 200
	case "clisendother":
		honoured = resp.Code == 308
	case "userinfo":
		honoured = resp.Code == 200
		if honoured {
			var ui struct {
				Sub string `json:"sub"`
			}
			json.Unmarshal(resp.Body, &ui)
			if a.Kind == "access" && a.Forged == "" && ui.Sub != a.Subject {
				w.violate("C12", "wrong-subject", "wrong-subject:userinfo", fmt.Sprintf("userinfo returned %q for the access token of %q", ui.Sub, a.Subject))
			}
			w.probe("userinfo-opened")
		}
	case "cliverify":
		honoured = resp.Code == 200
	case "clisend":
		honoured = resp.Code == 308
	}
	expect := vfKindFits(a.Kind, pr.Consumer) && a.Forged == "" && time.Now().Before(a.Exp)
	if pr.Consumer == "token" && expect {
		// presented with a deliberately wrong verifier for secret-less clients / right secret otherwise
		if c := vfClient(a.Client); c == nil || c.Secret == "" {
			expect = false
		}
	}
	if a.Kind == "cookie" && a.Forged == "" && !honoured {
		// an authentic cookie may still lack the level the endpoint wants
		if ci := w.model.cookies[a.Value]; ci != nil && pr.Consumer != "certgen" {
			need := 0
			for _, b := range w.cfg.WebUIBackends {
				need |= vfCertBackendBits[b]
			}
			if ci.Carried&need == 0 {
				expect = false
			}
		}
	}
	if pr.Consumer == "userinfo" && a.Kind == "access" && a.Forged == "" && honoured && time.Now().After(a.Exp.Add(time.Second)) {
		w.violate("C12", "userinfo-opened-by-other", "userinfo-opened-by-other:expired-access", fmt.Sprintf("userinfo answered 200 to an access token that expired %v ago", time.Since(a.Exp).Round(time.Second)))
	}
	if pr.Consumer == "userinfo" && a.Kind != "access" && honoured {
		w.violate("C12", "userinfo-opened-by-other", "userinfo-opened-by-other:"+a.Kind, fmt.Sprintf("userinfo answered 200 to a %s artefact", a.Kind))
	}
	w.judgePresent(a, pr.Consumer, honoured, expect, resp)
	if !honoured {
		// rejection must be free of side effects
		if c, ok := resp.Cookies[authCookieName]; ok && c.Value != "" {
			w.violate("C04", "side-effect-on-reject", "side-effect-on-reject:set-cookie", "a refused artefact still produced an auth cookie")
		}
		if ctx.backendTxns > 0 {
			w.violate("C04", "side-effect-on-reject", "side-effect-on-reject:backend", "a refused artefact still started a second-factor backend transaction")
		}
		if wr := w.primary.takeWrites(); len(wr) > 0 && a.Forged != "" {
			w.violate("C04", "side-effect-on-reject", "side-effect-on-reject:db-write", fmt.Sprintf("a refused forged artefact caused %d primary writes: %v", len(wr), wr[0]))
		}
	}
	w.primary.takeWrites()
}

func genTokenPlan(r *rand.Rand, tier, focus string) *vfPlan {
	p := &vfPlan{Cfg: vfCfg{TOTP: true, VIP: true, PwBackend: "counting", CliTokenLife: pick(r, []string{"1h", "30m", "24h"}),
		CertBackends: []string{"U2F", "TOTP", "password"}, WebUIBackends: pick(r, [][]string{{"password"}, {"password", "U2F"}, {"U2F", "TOTP", "password"}}),
		Ed25519CA: chance(r, 0.3), GroupsLDAP: chance(r, 0.3)}}
	if focus == "C04" {
		p.Cfg.NoHostIdentity = chance(r, 0.2) // a deployment whose servers share one configuration file and are told apart by their host names
	}
	add := func(s vfStep) { p.Steps = append(p.Steps, s) }
	users := []string{"alice", "bob", "mallory"}
	for i, s := range []string{"s1", "s2", "s3"} {
		add(vfStep{Op: "login", Sess: s, User: users[i]})
	}
	if focus == "C04" && chance(r, 0.5) {
		// a deployment where a certificate needs a second factor; sessions that carry one (some short-lived), and a
		// client certificate of the same user
		p.Cfg.CertBackends = []string{"U2F", "TOTP"}
		u := pick(r, users)
		add(vfStep{Op: "mintsession", Sess: "m1", User: u, N: int64(AuthTypeU2F | AuthTypePassword), D: pick(r, []string{"45s", "10m", "16h"})})
		add(vfStep{Op: "mintsession", Sess: "cs", User: u, N: int64(AuthTypeU2F | AuthTypePassword)})
		add(vfStep{Op: "certgen", Sess: "cs", User: u, A: "x509", B: "user_p256_2", D: "20h"})
	}
	if focus == "C04" {
		// honest flows first, so that every kind of artefact exists early in the run
		add(vfStep{Op: "oidc_authorize", Sess: "s1", A: "clientA", L: []string{"redirect:same", "nonce:yes", "method:nochallenge"}})
		add(vfStep{Op: "oidc_token", A: "last:code", B: "clientA", L: []string{"secret:right", "verifier:absent", "redirect:same", "auth:header"}})
		add(vfStep{Op: "oidc_authorize", Sess: "s2", A: pick(r, []string{"clientB", "clientD"}), L: []string{"redirect:same", "nonce:yes", "method:S256"}})
		add(vfStep{Op: "clishow", Sess: pick(r, []string{"s1", "s2", "s3"})})
		add(vfStep{Op: "mint_storage", User: pick(r, users)})
	}
	clients := []string{"clientA", "clientB", "clientC", "clientD"}
	kinds := []string{"cookie", "code", "idtoken", "access", "clitoken", "storage"}
	consumers := []string{"session", "sessionpost", "certgen", "token", "userinfo", "cliverify", "clisend", "storage", "tokenother", "clisendother", "storageother", "certgencert"}
	forgeries := []string{"foreignkey", "jwkembed", "kidclaim", "none", "hs256", "hs256pem", "corrupt:header", "corrupt:payload", "corrupt:signature",
		"claim:iss", "claim:aud", "claim:nbf", "claim:exp", "fclaim:sub", "fclaim:level", "fclaim:exp"}
	if p.Cfg.NoHostIdentity {
		forgeries = append(forgeries, "sibling", "sibling", "sibling")
	}
	n := 10 + r.IntN(16)
	if tier == "thorough" {
		n = 14 + r.IntN(30)
	}
	for i := 0; i < n; i++ {
		s := pick(r, []string{"s1", "s2", "s3"})
		x := r.IntN(100)
		switch {
		case x < 22:
			cl := pick(r, clients)
			l := []string{"redirect:" + pick(r, []string{"same", "same", "same", "other", "foreign"}), "nonce:" + pick(r, []string{"yes", "yes", "no", "short"})}
			m := pick(r, []string{"S256", "S256", "none", "plain", "unknown", "nochallenge"})
			if cl != "clientB" && cl != "clientD" && chance(r, 0.5) {
				m = "nochallenge"
			}
			l = append(l, "method:"+m)
			if cl == "clientB" && chance(r, 0.3) {
				l = append(l, "aud:https://api.b.example.com")
			}
			add(vfStep{Op: "oidc_authorize", Sess: s, A: cl, L: l})
			if focus == "C12" && chance(r, 0.6) {
				// the honest client goes on to redeem the code (sometimes another client tries, with everything else right)
				by := cl
				if chance(r, 0.2) {
					by = pick(r, clients)
				}
				tl := []string{"secret:right", "verifier:absent", "redirect:same", "auth:" + pick(r, []string{"header", "form", "header", "form", "header-empty"})}
				if m == "S256" || m == "plain" {
					tl[1] = "verifier:right"
				}
				if c := vfClient(by); c != nil && c.Secret == "" {
					tl[0] = "secret:absent"
				} else if chance(r, 0.2) {
					tl[0] = pick(r, []string{"secret:wrong", "secret:wrong", "secret:absent"}) // everything right but the client's own secret
				}
				if chance(r, 0.25) {
					add(vfStep{Op: "advance", D: pick(r, []string{"1s", "3s", "4m59s", "5m1s"})})
				}
				add(vfStep{Op: "oidc_token", A: "last:code", B: by, L: tl})
			} else if focus == "C12" && (cl == "clientB" || cl == "clientD") && m != "S256" && m != "plain" && chance(r, 0.6) {
				// a secret-less client whose authorization carried no usable challenge: whatever verifier it invents, nothing proves it is the client
				add(vfStep{Op: "oidc_token", A: "last:code", B: cl, L: []string{"secret:absent", "verifier:" + pick(r, []string{"wrong", "wrong", "challenge"}), "redirect:same", "auth:" + pick(r, []string{"header", "form", "header-empty"})}})
			}
		case x < 45:
			cl := pick(r, clients)
			art := "last:code"
			if chance(r, 0.5) {
				art = "last:code:" + pick(r, users)
			}
			if chance(r, 0.12) {
				art = "last:" + pick(r, kinds)
			}
			l := []string{"secret:" + pick(r, []string{"right", "right", "wrong", "absent"}), "verifier:" + pick(r, []string{"absent", "absent", "right", "wrong", "challenge"}),
				"redirect:" + pick(r, []string{"same", "same", "same", "other", "extend", "hostsuffix"}), "auth:" + pick(r, []string{"header", "form", "header-empty"})}
			if cl == "clientB" || cl == "clientD" {
				l[0] = "secret:" + pick(r, []string{"absent", "absent", "absent", "invented"})
				l[1] = "verifier:" + pick(r, []string{"right", "right", "wrong", "absent", "challenge"})
			}
			add(vfStep{Op: "oidc_token", A: art, B: cl, L: l})
		case x < 48 && focus == "C12":
			// an access token presented once the 16 hours of its authorization have passed (and shortly before)
			add(vfStep{Op: "advance", D: pick(r, []string{"15h50m", "16h1m", "17h", "40h"})})
			add(vfStep{Op: "oidc_userinfo", A: "last:access", L: []string{"via:" + pick(r, []string{"header", "form"})}})
		case x < 55:
			add(vfStep{Op: "oidc_userinfo", A: "last:" + pick(r, []string{"access", "access", "idtoken", "cookie", "code"}), L: []string{"via:" + pick(r, []string{"header", "form"})}})
		case x < 62:
			add(vfStep{Op: "clishow", Sess: s})
		case x < 66:
			add(vfStep{Op: "mint_storage", User: pick(r, users)})
		case x < 80:
			fk, fh := pick(r, kinds), pick(r, forgeries)
			fc := pick(r, consumers)
			if strings.HasPrefix(fh, "claim:") || chance(r, 0.4) {
				// a single-claim mutant says something only to the consumer of its own kind
				fc = pick(r, map[string][]string{"cookie": {"session", "sessionpost", "certgen", "certgencert"}, "code": {"token"}, "idtoken": {"userinfo"}, "access": {"userinfo"},
					"clitoken": {"cliverify", "clisend"}, "storage": {"storage"}}[fk])
			}
			add(vfStep{Op: "forge", A: "last:" + fk, B: fh, N: int64(r.IntN(40))})
			add(vfStep{Op: "present", A: "newest", B: fc})
		case x < 92:
			k := pick(r, kinds)
			c := pick(r, consumers)
			if focus == "C04" && chance(r, 0.45) {
				// the consumer this kind is meant for (so that the run also contains rightful use)
				c = pick(r, map[string][]string{"cookie": {"session", "sessionpost", "certgen", "certgencert"}, "code": {"token", "tokenother"}, "idtoken": {"userinfo"}, "access": {"userinfo"},
					"clitoken": {"cliverify", "clisend", "clisendother"}, "storage": {"storage", "storageother"}}[k])
			}
			add(vfStep{Op: "present", A: "last:" + k, B: c})
		default:
			add(vfStep{Op: "advance", D: pick(r, []string{"1s", "4m59s", "5m1s", "31m", "1h1m", "15h59m", "16h1m"})})
		}
	}
	return p
}
