package main

// Entry point of the simulation harness (compiled into the daemon's test
// binary through go build -overlay; see /verif/cmd/vfcheck).

import (
	"bufio"
	"crypto/sha256"
	"encoding/json"
	"encoding/pem"
	"fmt"
	"math/rand/v2"
	"net/url"
	"os"
	"path/filepath"
	"runtime/debug"
	"sort"
	"strings"
	"testing"
	"testing/cryptotest"
	"testing/synctest"
	"time"

	"github.com/tstranex/u2f"
)

type vfJob struct {
	Prop    string   `json:"prop"`
	Tier    string   `json:"tier"`
	Mode    string   `json:"mode"` // explore | replay | selftest
	Seeds   []int64  `json:"seeds"`
	Replay  *vfPlan  `json:"replay,omitempty"`
	Out     string   `json:"out"`
	Shrink  int      `json:"shrink"` // max re-executions for in-process minimisation
	Samples int      `json:"samples"`
	Known   []string `json:"known,omitempty"` // violation keys not worth shrinking again (known findings)
	Deadline int64   `json:"deadline_unix,omitempty"` // real time after which no new run starts
}

// a property profile: generates a plan from a seed and says which runs are
// non-trivial for its evidence
type vfProfile struct {
	Gen        func(r *rand.Rand, tier string) *vfPlan
	Nontrivial func(res *vfResult) bool
	Rule       string
	Expand     func(base *vfPlan, res *vfResult) []*vfPlan // derived plans enumerating the fault positions of a base history
	Setup      func(w *vfWorld) // after build, before the plan (observers, extra state)
	Final      func(w *vfWorld) // after the plan (history-level oracles)
	Post       func(t *testing.T, plan *vfPlan, res *vfResult) // after the bubble: cross-run oracles (differential runs)
}

var vfProfiles = map[string]*vfProfile{}

func pcg(seed int64) *rand.Rand {
	return rand.New(rand.NewPCG(uint64(seed), 0x9e3779b97f4a7c15^uint64(seed)*31))
}

func TestVF(t *testing.T) {
	jobFile := os.Getenv("VF_JOB")
	if jobFile == "" {
		t.Skip("VF_JOB not set")
	}
	raw, err := os.ReadFile(jobFile)
	if err != nil {
		t.Fatal(err)
	}
	var job vfJob
	if err := json.Unmarshal(raw, &job); err != nil {
		t.Fatal(err)
	}
	out, err := os.Create(job.Out)
	if err != nil {
		t.Fatal(err)
	}
	defer out.Close()
	bw := bufio.NewWriter(out)
	defer bw.Flush()
	emit := func(r *vfResult) {
		b, _ := json.Marshal(r)
		bw.Write(b)
		bw.WriteByte('\n')
		bw.Flush()
	}
	prof := vfProfiles[job.Prop]
	if prof == nil {
		emit(&vfResult{Prop: job.Prop, Infra: "unknown property profile " + job.Prop})
		return
	}
	known := map[string]bool{}
	for _, k := range job.Known {
		known[k] = true
	}
	switch job.Mode {
	case "replay":
		res := vfRunPlan(t, job.Replay, true)
		emit(res)
	default:
		shrunk := map[string]bool{}
		for i, seed := range job.Seeds {
			if job.Deadline > 0 && vfRealNow() > job.Deadline {
				break
			}
			plan := prof.Gen(pcg(seed), job.Tier)
			plan.Prop, plan.Seed = job.Prop, seed
			res := vfRunPlan(t, plan, i < job.Samples)
			if i == 0 {
				res.Rule = prof.Rule
			}
			var own []vfViolation
			for _, v := range res.Violations {
				if v.Prop == job.Prop {
					own = append(own, v)
				}
			}
			if len(own) > 0 && res.Infra == "" {
				res.Plans = map[string]*vfPlan{}
				for _, v := range own {
					if _, done := res.Plans[v.Key]; done {
						continue
					}
					if !shrunk[v.Key] && job.Shrink > 0 && !known[v.Key] {
						shrunk[v.Key] = true
						min, runs := vfShrink(t, plan, v, job.Shrink)
						min.Class, min.Key, min.Expect = v.Class, v.Key, v.Detail
						res.Plans[v.Key] = min
						res.ShrunkFrom, res.ShrunkRuns = len(plan.Steps), res.ShrunkRuns+runs
					} else {
						p := *plan
						p.Class, p.Key, p.Expect = v.Class, v.Key, v.Detail
						res.Plans[v.Key] = &p
					}
				}
				res.Plan = nil
			} else if i >= job.Samples {
				res.Plan = nil
				res.Log = nil
			}
			emit(res)
			if prof.Expand != nil && res.Infra == "" {
				for _, dp := range prof.Expand(plan, res) {
					if job.Deadline > 0 && vfRealNow() > job.Deadline+120 {
						break
					}
					dp.Prop, dp.Seed = job.Prop, seed
					dr := vfRunPlan(t, dp, false)
					dr.Variant = dp.Variant
					dr.Plans = map[string]*vfPlan{}
					for _, v := range dr.Violations {
						if v.Prop != job.Prop {
							continue
						}
						if _, done := dr.Plans[v.Key]; done {
							continue
						}
						if !shrunk[v.Key] && job.Shrink > 0 && !known[v.Key] {
							shrunk[v.Key] = true
							min, runs := vfShrink(t, dp, v, job.Shrink)
							min.Class, min.Key, min.Expect = v.Class, v.Key, v.Detail
							dr.Plans[v.Key], dr.ShrunkFrom, dr.ShrunkRuns = min, len(dp.Steps), runs
						} else {
							q := *dp
							q.Class, q.Key, q.Expect = v.Class, v.Key, v.Detail
							dr.Plans[v.Key] = &q
						}
					}
					dr.Plan = nil
					if len(dr.Violations) == 0 {
						dr.Plan, dr.Log = nil, nil
					}
					emit(dr)
				}
			}
		}
	}
}

func vfRealNow() int64 {
	// real wall clock: we are outside any bubble here
	return time.Now().Unix()
}

// vfRunPlan executes one plan in a fresh bubble and returns its result.
func vfRunPlan(t *testing.T, plan *vfPlan, keepLog bool) (res *vfResult) {
	res = &vfResult{Seed: plan.Seed, Prop: plan.Prop, Plan: plan}
	prof := vfProfiles[plan.Prop]
	if !vfRaceBuild {
		cryptotest.SetGlobalRandom(t, uint64(plan.Seed)*2654435761+17)
	}
	defer func() {
		if prof != nil && prof.Post != nil && res.Infra == "" {
			prof.Post(t, plan, res)
		}
		res.HistHash = vfHash(strings.Join(res.Log, "\n"))
		if d := os.Getenv("VF_DUMP_LOGS"); d != "" {
			// debugging aid of the determinism self-test: the event log of every run, one file per process and run
			os.WriteFile(filepath.Join(d, fmt.Sprintf("%s-%d-%s-%d.log", plan.Prop, res.Seed, res.Variant, os.Getpid())), []byte(strings.Join(res.Log, "\n")), 0o644)
		}
		sort.Strings(res.Cells)
		if prof != nil && prof.Nontrivial != nil {
			res.Nontrivial = prof.Nontrivial(res)
		}
		if !keepLog && len(res.Violations) == 0 {
			res.Log = nil
		}
	}()
	defer func() {
		if r := recover(); r != nil {
			msg := fmt.Sprint(r)
			if strings.Contains(msg, "deadlock: main bubble goroutine has exited") {
				// goroutines with no exit path (e.g. event recorder loops) remain; accepted
				if os.Getenv("VF_DEBUG_LEAK") != "" {
					fmt.Fprintln(os.Stderr, "LEAK:", msg)
				}
				res.LeakedBubble = true
				return
			}
			res.Infra = "panic: " + msg + "\n" + string(debug.Stack())
		}
	}()
	synctest.Test(t, func(t *testing.T) {
		w := &vfWorld{t: t, prop: plan.Prop, cfg: plan.Cfg, res: res, cacheSynced: map[string]bool{}, lockouts: map[int]time.Duration{}, totpAcceptAt: map[string]time.Time{}, groupChanged: map[string]time.Time{}, subs: map[int]*vfSubscriber{}, returnedCerts: map[string]int{},
			sessions: map[string]*vfSession{}, tokens: map[string]*vfSoftToken{}, oldPassword: map[string]string{}}
		if err := w.build(); err != nil {
			res.Infra = "build: " + err.Error()
			if w.sched != nil {
				w.teardown()
			}
			return
		}
		func() {
			defer func() {
				if r := recover(); r != nil {
					res.Infra = fmt.Sprintf("run panic: %v\n%s", r, debug.Stack())
				}
			}()
			if !w.sealed {
				w.model.refreshPublished()
			}
			if prof != nil && prof.Setup != nil {
				prof.Setup(w)
			}
			w.runPlan(plan.Steps)
			if prof != nil && prof.Final != nil {
				prof.Final(w)
			}
		}()
		res.SimSeconds = w.simSeconds()
		res.Multi = w.sched.multi
		res.SchedHash = vfHash(strings.Join(w.sched.trace, ";"))
		if plan.Tape == nil || len(w.sched.used) > 0 {
			// normalise the tape to the choices actually taken
			plan.Tape = append([]int(nil), w.sched.used...)
		}
		w.teardown()
	})
	return res
}

func vfHash(s string) string {
	h := sha256.Sum256([]byte(s))
	return fmt.Sprintf("%x", h[:8])
}

func (w *vfWorld) cell(c string) {
	for _, x := range w.res.Cells {
		if x == c {
			return
		}
	}
	w.res.Cells = append(w.res.Cells, c)
}

// cleanWindow: no fault is currently in flight (used only to decide whether the
// "is served" direction may be judged)
func (w *vfWorld) cleanWindow() bool {
	if w.stalled || w.vipsim.Fail || (w.pw != nil && w.pw.Fail) {
		return false
	}
	if w.limiterExhaustedRecently() {
		return false
	}
	return true
}

func (w *vfWorld) limiterExhaustedRecently() bool {
	// judged from the configured burst, not from code constants
	burst := w.cfg.Burst
	if burst <= 0 {
		burst = 100
	}
	if burst < 10 {
		burst = 10
	}
	n := 0
	for _, t := range w.loginAttempts {
		if time.Since(t) < 10*time.Minute {
			n++
		}
	}
	return n >= burst/2
}

// ---- minimisation ---------------------------------------------------------------------

func vfShrink(t *testing.T, plan *vfPlan, v vfViolation, budget int) (*vfPlan, int) {
	cur := *plan
	cur.Steps = append([]vfStep(nil), plan.Steps...)
	runs := 0
	once := func(p *vfPlan) bool {
		runs++
		q := *p
		q.Tape = append([]int(nil), p.Tape...)
		r := vfRunPlan(t, &q, false)
		if r.Infra != "" {
			return false
		}
		for _, x := range r.Violations {
			if x.Prop == v.Prop && x.Key == v.Key {
				p.Tape = q.Tape
				return true
			}
		}
		return false
	}
	// The simulator's choices replay exactly; the code under test may still depend on something the simulator does
	// not own (map iteration order).  If the unchanged plan does not show the violation again every time, a
	// reduction is accepted only when it shows it several times in a row, so that the minimised plan stays likely to fail.
	confirm := 1
	for i := 0; i < 2; i++ {
		c := cur
		if !once(&c) {
			confirm = 3
			break
		}
	}
	fails := func(p *vfPlan) bool {
		for i := 0; i < confirm; i++ {
			if !once(p) {
				return false
			}
		}
		return true
	}
	// cut everything after the violating step
	if v.Step+1 < len(cur.Steps) {
		c := cur
		c.Steps = append([]vfStep(nil), cur.Steps[:v.Step+1]...)
		// keep whole concurrent group
		for len(c.Steps) < len(cur.Steps) && cur.Steps[len(c.Steps)].Par != 0 && cur.Steps[len(c.Steps)].Par == c.Steps[len(c.Steps)-1].Par {
			c.Steps = append(c.Steps, cur.Steps[len(c.Steps)])
		}
		if runs < budget && fails(&c) {
			cur = c
		}
	}
	// delta debugging: drop chunks, halving
	for chunk := len(cur.Steps) / 2; chunk >= 1 && runs < budget; chunk /= 2 {
		for i := 0; i+chunk <= len(cur.Steps) && runs < budget; {
			c := cur
			c.Steps = append(append([]vfStep(nil), cur.Steps[:i]...), cur.Steps[i+chunk:]...)
			if fails(&c) {
				cur = c
			} else {
				i += chunk
			}
		}
	}
	// simplify the tape: zero entries from the end
	for i := len(cur.Tape) - 1; i >= 0 && runs < budget; i-- {
		if cur.Tape[i] == 0 {
			continue
		}
		c := cur
		c.Tape = append([]int(nil), cur.Tape...)
		c.Tape[i] = 0
		if fails(&c) {
			cur = c
		}
	}
	return &cur, runs
}

// ---- setup helpers: enrol factors through the real handlers with a setup cookie --------

func (w *vfWorld) setupCookie(user string) string {
	v, err := w.state.genNewSerializedAuthJWT(user, AuthTypeU2F|AuthTypePassword|AuthTypeTOTP|AuthTypeSymantecVIP|AuthTypeBootstrapOTP|AuthTypeFederated|AuthTypeOkta2FA, 600)
	if err != nil {
		panic(err)
	}
	return v
}

func (w *vfWorld) setupEnrollTOTP(user string) {
	ck := map[string]string{authCookieName: w.setupCookie(user)}
	r := w.serve(&vfReq{Method: "POST", Path: "/totp/GenerateNew/", Cookies: ck})
	mm := reTOTPSecret.FindSubmatch(r.Body)
	if r.Code != 200 || mm == nil {
		panic(fmt.Sprintf("vf: TOTP enrol failed: %d %s", r.Code, vfShort(string(r.Body))))
	}
	f := w.model.user(user)
	f.TOTPSecret = string(mm[1])
	code := w.totpCode(user, time.Now())
	r = w.serve(&vfReq{Method: "POST", Path: "/totp/ValidateNew/", Cookies: ck, Form: url.Values{"OTP": {code}}})
	if r.Code != 302 {
		panic(fmt.Sprintf("vf: TOTP validate failed: %d", r.Code))
	}
	f.TOTPEnabled = true
	f.TOTPIndex = time.Now().Unix()
}

func (w *vfWorld) setupEnrollU2F(user, tokName string) {
	ck := map[string]string{authCookieName: w.setupCookie(user)}
	tok := w.token(tokName)
	r := w.serve(&vfReq{Method: "GET", Path: "/u2f/RegisterRequest/" + user, Cookies: ck})
	var rr u2f.WebRegisterRequest
	if r.Code != 200 || json.Unmarshal(r.Body, &rr) != nil || len(rr.RegisterRequests) == 0 {
		panic(fmt.Sprintf("vf: U2F register request failed: %d %s", r.Code, vfShort(string(r.Body))))
	}
	body := tok.registerResponse(u2fAppID, rr.RegisterRequests[0].Challenge)
	r = w.serve(&vfReq{Method: "POST", Path: "/u2f/RegisterResponse/" + user, Cookies: ck, JSON: body})
	if r.Code != 200 {
		panic(fmt.Sprintf("vf: U2F register response failed: %d %s", r.Code, vfShort(string(r.Body))))
	}
	tok.Owner, tok.Enabled, tok.Index = user, true, time.Now().Unix()
	w.model.user(user).U2FTokens[tokName] = tok
}

func vfPEMDer(path string) []byte {
	data, err := os.ReadFile(path)
	if err != nil {
		panic(err)
	}
	blk, _ := pem.Decode(data)
	if blk == nil {
		panic("not pem: " + path)
	}
	return blk.Bytes
}

func jsonUnmarshal(b []byte, v any) error { return json.Unmarshal(b, v) }
