package main

// C07: the directory's verdict on a password is final; the offline hash cache
// only fills outages.  Real lib/pwauth/ldap authenticator, real signed-record
// storage; the LDAP wire is simulated per server (up/down/refuse/error/slow).

import (
	"database/sql"
	"fmt"
	"math/rand/v2"
	"strings"
	"time"

	"github.com/Cloud-Foundations/keymaster/lib/authutil"
)

type vfRecInfo struct {
	User string
	Pw   string
	Exp  time.Time // signed expiry
}

func (w *vfWorld) rawSignedRow(file, user string) (jws string, expCol int64, ok bool) {
	db := w.rawDB(file)
	err := db.QueryRow("SELECT jws_data, expiration_epoch FROM expiring_signed_user_data WHERE username = ? AND type = 1", user).Scan(&jws, &expCol)
	if err == sql.ErrNoRows {
		return "", 0, false
	}
	if err != nil {
		panic(err)
	}
	return jws, expCol, true
}

func (w *vfWorld) rawExec(file, q string, args ...any) {
	if _, err := w.rawDB(file).Exec(q, args...); err != nil {
		panic(fmt.Sprintf("vf: raw exec on %s: %v", file, err))
	}
}

func init() {
	vfExtraOps["dir_setpw"] = func(w *vfWorld, st vfStep, p *vfPrepared) *vfPrepared {
		p.env = func() {
			w.oldPassword[st.User] = w.dirsim.Password[st.User]
			w.dirsim.Password[st.User] = fmt.Sprintf("%s-pw-%d", st.User, st.N+2)
			if st.A == "long" {
				// a pass phrase: 90 characters, the distinguishing ones at the end
				w.dirsim.Password[st.User] = fmt.Sprintf("%s-%s-%d", st.User, strings.Repeat("correct horse battery staple ", 3)[:80], st.N+2)
			}
		}
		return p
	}
	// N: server index (1..3); A: up|down|refuse|error|slow
	vfExtraOps["dir_server"] = func(w *vfWorld, st vfStep, p *vfPrepared) *vfPrepared {
		p.env = func() {
			if s := w.dirsim.Servers[fmt.Sprintf("ldap%d.sim", st.N)]; s != nil {
				s.Mode = st.A
				if st.A != "up" {
					w.fault("dir." + st.A)
				}
			}
		}
		return p
	}
	// A: how (copy|flip|extend|reinsert|foreign|delete) ; User: victim row ; Target: source user ; B: db (cache|primary)
	vfExtraOps["tamper"] = func(w *vfWorld, st vfStep, p *vfPrepared) *vfPrepared {
		p.env = func() { w.tamper(st) }
		return p
	}
	vfProfiles["C07"] = &vfProfile{
		Gen: genLdapPlan,
		Nontrivial: func(res *vfResult) bool {
			return res.Probes["login-no-server-answered"] > 0 && res.Probes["login-server-answered"] > 0
		},
		Rule:  "seeded histories for 3 users of {login with current/old/wrong password (form, basic, case variants), directory password change, per-server up/down/refuse/error/slow, clock advances around 96h, primary-store outage, completed sync, cache/primary row tampering (copy to other user, byte flip, extend expiry column, re-insert evicted, foreign signature, delete)} with 1-3 simulated LDAP servers; non-trivial = the run contains logins decided by an answering server AND logins with no server answering; distinct = distinct canonical event log",
		Setup: ldapSetup,
	}
}

func (w *vfWorld) tamper(st vfStep) {
	file := cachedDBFilename
	if st.B == "primary" {
		file = profileDBFilename
	}
	w.fault("db.tamper." + st.A)
	w.tampered = true
	now := time.Now().Unix()
	switch st.A {
	case "copy":
		// another user's authentic record under the victim's name
		if jws, exp, ok := w.rawSignedRow(file, st.Target); ok {
			w.rawExec(file, "INSERT OR REPLACE INTO expiring_signed_user_data(username,type,jws_data,expiration_epoch,update_epoch) VALUES(?,1,?,?,?)", st.User, jws, exp, now)
		}
	case "flip":
		if jws, exp, ok := w.rawSignedRow(file, st.User); ok && len(jws) > 40 {
			b := []byte(jws)
			i := len(b)/2 + int(st.N)%20
			if b[i] == 'A' {
				b[i] = 'B'
			} else {
				b[i] = 'A'
			}
			w.rawExec(file, "UPDATE expiring_signed_user_data SET jws_data=? WHERE username=? AND type=1", string(b), st.User)
			_ = exp
		}
	case "extend":
		// only the unsigned column is pushed into the future
		w.rawExec(file, "UPDATE expiring_signed_user_data SET expiration_epoch=? WHERE username=? AND type=1", now+400*86400, st.User)
	case "reinsert":
		// the newest record the server ever wrote for that user comes back
		if old := w.lastRecord[st.User]; old != "" {
			w.rawExec(file, "INSERT OR REPLACE INTO expiring_signed_user_data(username,type,jws_data,expiration_epoch,update_epoch) VALUES(?,1,?,?,?)", st.User, old, now+400*86400, now)
			w.replayed[st.User] = true
		}
	case "foreign":
		if jws, _, ok := w.rawSignedRow(file, st.User); ok {
			if forged := vfResignJWT(jws, "ca_rsa_alt", nil); forged != "" {
				w.rawExec(file, "UPDATE expiring_signed_user_data SET jws_data=? WHERE username=? AND type=1", forged, st.User)
			}
		}
	case "delete":
		w.rawExec(file, "DELETE FROM expiring_signed_user_data WHERE username=? AND type=1", st.User)
	}
}

func ldapSetup(w *vfWorld) {
	w.recInfo = map[string]*vfRecInfo{}
	w.lastRecord = map[string]string{}
	w.replayed = map[string]bool{}
	w.observers = append(w.observers, func(p *vfPrepared, ctx *vfReqCtx, resp *vfResp) {
		if p.step.Op != "login" {
			return
		}
		in := p.intent
		user := w.model.norm(in.LoginUser)
		pw := in.LoginPw
		if resp.Code == 429 {
			return
		}
		accepted := resp.Code == 200 || resp.Code == 302
		if c, ok := resp.Cookies[authCookieName]; !ok || c.Value == "" {
			accepted = false
		}
		storageFault := w.stalled
		cacheOn := !w.cfg.NoPwCache
		if ctx.dirAnswered {
			w.probe("login-server-answered")
			// verdict of the first answering server
			verdict := false
			for _, pc := range ctx.pwChecks {
				verdict = pc.OK
				break
			}
			if accepted && !verdict {
				w.violate("C07", "accepted-against-directory", "accepted-against-directory",
					fmt.Sprintf("directory rejected the password of %s but the login was accepted", user))
			}
			if !accepted && verdict && !storageFault && resp.Code != 500 {
				w.violate("C07", "refused-against-directory", fmt.Sprintf("refused-against-directory:%d", resp.Code),
					fmt.Sprintf("directory accepted the password of %s but the login was answered %d", user, resp.Code))
			}
			if !cacheOn || storageFault {
				return
			}
			jws, _, has := w.rawSignedRow(profileDBFilename, user)
			if verdict {
				// acceptance refreshes the user's cached hash
				ok := false
				if has {
					if pl := vfJWTPayload(jws); pl != nil && jstr(pl, "sub") == user {
						if authutil.Argon2CompareHashAndPassword(jstr(pl, "data"), []byte(pw)) == nil &&
							jnum(pl, "exp") >= time.Now().Add(96*time.Hour).Unix()-5 {
							ok = true
							// the statement's own bound (96 hours after the confirming login), not whatever the record claims
							w.recInfo[jws] = &vfRecInfo{User: user, Pw: pw, Exp: time.Now().Add(96 * time.Hour)}
							w.lastRecord[user] = jws
							w.replayed[user] = false
						}
					}
				}
				if !ok {
					w.violate("C07", "not-refreshed", "not-refreshed", fmt.Sprintf("directory-confirmed login of %s did not leave a fresh cached hash (row present=%v)", user, has))
				}
			} else if has {
				// rejection of the cached password evicts it
				if info := w.recInfo[jws]; info != nil && info.User == user && info.Pw == pw && time.Now().Before(info.Exp) {
					w.violate("C07", "not-evicted", "not-evicted", fmt.Sprintf("directory rejected the cached password of %s but the cached hash is still stored", user))
				}
			}
			return
		}
		// no server answered
		if len(ctx.pwChecks) > 0 {
			return
		}
		// ... although one of the configured servers is up: "when at least one server answers its verdict is final" -
		// a reachable server that is never asked cannot answer
		for name, srv := range w.dirsim.Servers {
			var idx int
			fmt.Sscanf(name, "ldap%d.sim", &idx)
			if idx >= 1 && idx <= w.cfg.LDAPServers && srv.Mode == "up" && accepted && w.dirsim.Password[user] != pw {
				w.violate("C07", "accepted-against-directory", "accepted-against-directory:reachable-server-not-asked",
					fmt.Sprintf("login of %s accepted from the cache with a password the directory rejects, while %s was up and was never asked", user, name))
				return
			}
		}
		w.probe("login-no-server-answered")
		file := profileDBFilename
		if w.stalled {
			file = cachedDBFilename
			w.probe("login-decided-by-cache-db")
		}
		jws, _, has := w.rawSignedRow(file, user)
		expect := false
		why := "no cached record"
		if has {
			info := w.recInfo[jws]
			switch {
			case !cacheOn:
				why = "password cache disabled"
			case info == nil:
				why = "record was not written by this server (tampered / foreign / altered)"
			case info.User != user:
				why = "record belongs to " + info.User
			case !ctx.started.Before(info.Exp.Add(time.Second)):
				// judged at the instant the request came in (requests take simulated seconds during an outage), whole seconds
				why = "record older than its signed expiry"
			case !time.Now().Before(info.Exp.Add(-time.Second)):
				return // the 96 hours end while this request is being served: either answer is right
			case info.Pw != pw:
				why = "password does not match the cached one"
			default:
				expect = true
			}
		}
		if accepted && !expect {
			if w.replayed[user] && has && w.recInfo[jws] != nil && w.recInfo[jws].User == user && w.recInfo[jws].Pw == pw && time.Now().Before(w.recInfo[jws].Exp) {
				return // a replayed authentic, unexpired record of the same user: the statement leaves this open
			}
			cls := "accepted-from-stale-cache"
			if strings.Contains(why, "tampered") || strings.Contains(why, "belongs") {
				cls = "accepted-tampered-record"
			} else if strings.Contains(why, "no cached") || strings.Contains(why, "disabled") || strings.Contains(why, "match") {
				cls = "accepted-without-directory"
			}
			w.violate("C07", cls, cls, fmt.Sprintf("no directory server answered; login of %s accepted although: %s", user, why))
		}
		if accepted {
			w.probe("accepted-from-cache")
		}
	})
}

func genLdapPlan(r *rand.Rand, tier string) *vfPlan {
	p := &vfPlan{Cfg: vfCfg{TOTP: true, VIP: true, PwBackend: "ldap", LDAPServers: pick(r, []int{1, 2, 3, 3}), NoPwCache: chance(r, 0.12),
		CertBackends: []string{"U2F", "TOTP"}, WebUIBackends: []string{"U2F", "TOTP"}, DisableNorm: chance(r, 0.15)}}
	add := func(s vfStep) { p.Steps = append(p.Steps, s) }
	users := []string{"alice", "bob", "mallory"}
	allDown := func(mode string) {
		for i := 1; i <= p.Cfg.LDAPServers; i++ {
			add(vfStep{Op: "dir_server", N: int64(i), A: mode})
		}
	}
	n := 8 + r.IntN(16)
	if tier == "thorough" {
		n = 10 + r.IntN(30)
	}
	for i := 0; i < n; i++ {
		u := pick(r, users)
		switch x := r.IntN(100); {
		case x < 40:
			name := u
			if chance(r, 0.12) {
				name = strings.ToUpper(u[:1]) + u[1:]
			}
			add(vfStep{Op: "login", Sess: pick(r, vfSessNames), User: name, A: pick(r, []string{"", "", "", "old", "wrong", "of:" + pick(r, users)}), B: pick(r, []string{"form", "form", "basic"})})
		case x < 46:
			add(vfStep{Op: "dir_setpw", User: u, N: int64(i)})
		case x < 48:
			// a long pass phrase is confirmed and cached; during an outage one that differs only near its end is tried
			add(vfStep{Op: "dir_setpw", User: u, N: int64(i), A: "long"})
			add(vfStep{Op: "login", Sess: pick(r, vfSessNames), User: u, B: "form"})
			allDown(pick(r, []string{"down", "refuse", "error"}))
			add(vfStep{Op: "login", Sess: pick(r, vfSessNames), User: u, A: "twin", B: "form"})
		case x < 58:
			add(vfStep{Op: "dir_server", N: int64(1 + r.IntN(p.Cfg.LDAPServers)), A: pick(r, []string{"up", "down", "refuse", "error", "slow"})})
		case x < 63:
			allDown(pick(r, []string{"down", "refuse", "error"}))
		case x < 66 && p.Cfg.LDAPServers >= 2 && chance(r, 0.6):
			// a cached password goes stale while only the LAST configured server is still reachable
			add(vfStep{Op: "login", Sess: pick(r, vfSessNames), User: u, B: "form"})
			add(vfStep{Op: "dir_setpw", User: u, N: int64(i)})
			for k := 1; k < p.Cfg.LDAPServers; k++ {
				add(vfStep{Op: "dir_server", N: int64(k), A: pick(r, []string{"down", "refuse", "error"})})
			}
			add(vfStep{Op: "dir_server", N: int64(p.Cfg.LDAPServers), A: "up"})
			add(vfStep{Op: "login", Sess: pick(r, vfSessNames), User: u, A: "old", B: pick(r, []string{"form", "basic"})})
		case x < 66:
			// all but the last server away
			for k := 1; k < p.Cfg.LDAPServers; k++ {
				add(vfStep{Op: "dir_server", N: int64(k), A: pick(r, []string{"down", "refuse", "error"})})
			}
			add(vfStep{Op: "dir_server", N: int64(p.Cfg.LDAPServers), A: "up"})
		case x < 72:
			allDown("up")
		case x < 80:
			add(vfStep{Op: "advance", D: pick(r, []string{"1s", "1h", "47h", "95h59m", "96h1m", "97h", "10s"})})
		case x < 82:
			// a confirmed login, the unsigned expiry column pushed out, the record's 96 hours pass, the directory goes away
			add(vfStep{Op: "login", Sess: pick(r, vfSessNames), User: u, B: "form"})
			if chance(r, 0.5) {
				add(vfStep{Op: "sync"})
			}
			add(vfStep{Op: "tamper", User: u, Target: u, A: "extend", B: pick(r, []string{"cache", "primary", "primary"})})
			if chance(r, 0.4) {
				add(vfStep{Op: "tamper", User: u, Target: u, A: "extend", B: "cache"})
			}
			add(vfStep{Op: "advance", D: pick(r, []string{"96h1m", "97h", "95h59m", "200h"})})
			allDown(pick(r, []string{"down", "refuse", "error"}))
			if chance(r, 0.3) {
				add(vfStep{Op: "outage"})
			}
			add(vfStep{Op: "login", Sess: pick(r, vfSessNames), User: u, B: "form"})
		case x < 84:
			// a confirmed login is mirrored to the cache database; the password changes and the old one is rejected (its
			// record leaves the primary); the directory goes away before the next synchronisation mirrors the removal
			add(vfStep{Op: "login", Sess: pick(r, vfSessNames), User: u, B: "form"})
			add(vfStep{Op: "sync"})
			add(vfStep{Op: "dir_setpw", User: u, N: int64(i)})
			add(vfStep{Op: "login", Sess: pick(r, vfSessNames), User: u, A: "old", B: "form"})
			allDown(pick(r, []string{"down", "refuse", "error"}))
			add(vfStep{Op: "login", Sess: pick(r, vfSessNames), User: u, A: "old", B: pick(r, []string{"form", "basic"})})
		case x < 85:
			add(vfStep{Op: "sync"})
		case x < 89:
			add(vfStep{Op: "outage"})
		case x < 92:
			add(vfStep{Op: "outage_end"})
		default:
			t := pick(r, users)
			how := pick(r, []string{"copy", "copy", "flip", "extend", "reinsert", "foreign", "delete"})
			add(vfStep{Op: "tamper", User: u, Target: t, A: how, B: pick(r, []string{"cache", "primary", "primary"}), N: int64(r.IntN(20))})
			if how == "copy" && chance(r, 0.6) {
				// the adversary then tries the source user's password on the victim's name while the directory is away
				allDown(pick(r, []string{"down", "refuse", "error"}))
				add(vfStep{Op: "login", Sess: pick(r, vfSessNames), User: u, A: "of:" + t})
			}
		}
	}
	add(vfStep{Op: "outage_end"})
	return p
}
