package main

// C16: requests served concurrently behave as if served one after another.
//
// A run = a seeded prefix (enrolments, logins) + ONE group of 2-3 requests
// started together; the scheduler interleaves them at storage-operation,
// backend-call and mutex granularity according to the choice tape.  Oracles:
//  (a) race detector (the check runs on a -race build; hand-offs are hidden
//      from the detector, so only the product's own synchronisation counts);
//  (b) differential serialisability: the same requests are executed by the
//      same real handlers one after another in every order, each in a fresh
//      world with the same prefix; the concurrent outcome must equal one of
//      the sequential outcomes;
//  (c) the two named guarantees, judged independently of (b): an acknowledged
//      disable/delete of a token is in effect at the end; a one-time value
//      presented concurrently is honoured at most once.

import (
	"encoding/json"
	"fmt"
	"math/rand/v2"
	"net/url"
	"sort"
	"strconv"
	"strings"
	"testing"
	"time"

	"github.com/pquerna/otp/totp"
	"github.com/tstranex/u2f"
)

func init() {
	vfExtraOps["mgmt"] = func(w *vfWorld, st vfStep, p *vfPrepared) *vfPrepared {
		actor := st.C
		if actor == "" {
			actor = st.User
		}
		f := w.model.user(st.User)
		var idx int64
		path := "/api/v0/manageU2FToken"
		if st.A == "totp" {
			path = "/api/v0/manageTOTPToken"
			idx = f.TOTPIndex
		} else {
			t := f.U2FTokens[st.Target]
			if t == nil {
				return nil
			}
			idx = t.Index
		}
		r := &vfReq{Method: "POST", Path: path, Cookies: map[string]string{authCookieName: w.setupCookie(actor)},
			Form: url.Values{"username": {st.User}, "index": {strconv.FormatInt(idx, 10)}, "action": {st.B}, "name": {fmt.Sprintf("name-%d", st.N)}}}
		p.call = w.prepare(r)
		p.intent.Op = fmt.Sprintf("manage%sToken:%s", strings.ToUpper(st.A), st.B)
		return p
	}
	vfExtraOps["totp_new"] = func(w *vfWorld, st vfStep, p *vfPrepared) *vfPrepared {
		r := &vfReq{Method: "POST", Path: "/totp/GenerateNew/", Cookies: map[string]string{authCookieName: w.setupCookie(st.User)}}
		p.call = w.prepare(r)
		p.intent.Op = "totpGenerateNew"
		p.after = func(resp *vfResp) {
			if mm := reTOTPSecret.FindSubmatch(resp.Body); mm != nil && resp.Code == 200 {
				w.model.user(st.User).PendingSecret = string(mm[1])
			}
		}
		return p
	}
	vfExtraOps["totp_validate_new"] = func(w *vfWorld, st vfStep, p *vfPrepared) *vfPrepared {
		f := w.model.user(st.User)
		if f.PendingSecret == "" {
			return nil
		}
		code, _ := totp.GenerateCode(f.PendingSecret, time.Now())
		r := &vfReq{Method: "POST", Path: "/totp/ValidateNew/", Cookies: map[string]string{authCookieName: w.setupCookie(st.User)}, Form: url.Values{"OTP": {code}}}
		p.call = w.prepare(r)
		p.intent.Op = "totpValidateNew"
		return p
	}
	vfExtraOps["u2f_regreq"] = func(w *vfWorld, st vfStep, p *vfPrepared) *vfPrepared {
		r := &vfReq{Method: "GET", Path: "/u2f/RegisterRequest/" + st.User, Cookies: map[string]string{authCookieName: w.setupCookie(st.User)}}
		p.call = w.prepare(r)
		p.intent.Op = "u2fRegisterRequest"
		p.after = func(resp *vfResp) {
			var rr u2f.WebRegisterRequest
			if resp.Code == 200 && json.Unmarshal(resp.Body, &rr) == nil && len(rr.RegisterRequests) > 0 {
				w.model.user(st.User).RegChallenge = rr.RegisterRequests[0].Challenge
			}
		}
		return p
	}
	vfExtraOps["u2f_regresp"] = func(w *vfWorld, st vfStep, p *vfPrepared) *vfPrepared {
		f := w.model.user(st.User)
		if f.RegChallenge == "" {
			return nil
		}
		tok := w.token(st.Target)
		r := &vfReq{Method: "POST", Path: "/u2f/RegisterResponse/" + st.User, Cookies: map[string]string{authCookieName: w.setupCookie(st.User)},
			JSON: tok.registerResponse(u2fAppID, f.RegChallenge)}
		p.call = w.prepare(r)
		p.intent.Op = "u2fRegisterResponse"
		return p
	}
	vfExtraOps["newbootstrap"] = func(w *vfWorld, st vfStep, p *vfPrepared) *vfPrepared {
		r := &vfReq{Method: "POST", Path: "/admin/newBoostrapOTP", Cookies: map[string]string{authCookieName: w.setupCookie("root")},
			Form: url.Values{"username": {st.User}}}
		p.call = w.prepare(r)
		p.intent.Op = "newBootstrapOTP"
		return p
	}
	vfExtraOps["adduser"] = func(w *vfWorld, st vfStep, p *vfPrepared) *vfPrepared {
		r := &vfReq{Method: "POST", Path: "/admin/addUser", Cookies: map[string]string{authCookieName: w.setupCookie("root")},
			Form: url.Values{"username": {st.User}}}
		p.call = w.prepare(r)
		p.intent.Op = "addUser"
		return p
	}
	vfExtraOps["deluser"] = func(w *vfWorld, st vfStep, p *vfPrepared) *vfPrepared {
		r := &vfReq{Method: "POST", Path: "/admin/deleteUser", Cookies: map[string]string{authCookieName: w.setupCookie("root")},
			Form: url.Values{"username": {st.User}}}
		p.call = w.prepare(r)
		p.intent.Op = "deleteUser"
		return p
	}

	vfProfiles["C16"] = &vfProfile{
		Gen:        genConcPlan,
		Nontrivial: func(res *vfResult) bool { return res.Multi >= 2 },
		Rule:       "seeded prefix + one group of 2-3 concurrent requests drawn from the profile-mutating and second-factor handler set (same user or two users); the interleaving at storage-operation / backend / mutex granularity is chosen by the seeded tape; each concurrent run is compared with all sequential orders executed by the same handlers; non-trivial = at least 2 scheduling decisions had more than one runnable task; distinct = distinct (history, interleaving) hash",
		Setup:      concSetup,
		Final:      concFinal,
		Post:       concPost,
	}
}

type concReq struct {
	Op      string `json:"op"`
	Code    int    `json:"code"`
	Upgrade string `json:"upgrade,omitempty"` // factor bits gained by the cookie set in the response
	Ack     bool   `json:"ack"`
	Effect  string `json:"effect,omitempty"` // present | absent | "" (no stored effect to speak of)
	Step    vfStep `json:"-"`
}

type concOutcome struct {
	Reqs     []concReq         `json:"reqs"`
	Profiles map[string]string `json:"profiles"`
}

func (o *concOutcome) sig() string {
	var parts []string
	for _, r := range o.Reqs {
		cls := "ok"
		if r.Code >= 400 {
			cls = "refused" // which error status a refused request gets is not part of the guarantee (the handlers use 400, 401, 412 and 500 for refusals)
		}
		parts = append(parts, fmt.Sprintf("%s=%s/%s/%s", r.Op, cls, r.Upgrade, r.Effect))
	}
	var users []string
	for u := range o.Profiles {
		users = append(users, u)
	}
	sort.Strings(users)
	for _, u := range users {
		parts = append(parts, u+":"+o.Profiles[u])
	}
	return strings.Join(parts, " || ")
}

func concSetup(w *vfWorld) {
	w.conc = &concOutcome{Profiles: map[string]string{}}
	if w.cfg.Sealed {
		// the unsealing is a one-time transition too: the C09 monitors run and a repeated transition counts here as well
		sealSetup(w)
		w.observers = append(w.observers, func(p *vfPrepared, ctx *vfReqCtx, resp *vfResp) {
			for _, v := range w.res.Violations {
				if v.Prop == "C09" && v.Class == "double-transition" && v.Step == w.stepIdx {
					w.violate("C16", "double-spend", "double-spend:unseal-transition", v.Detail)
				}
			}
		})
	}
	w.observers = append(w.observers, func(p *vfPrepared, ctx *vfReqCtx, resp *vfResp) {
		if p.step.Par == 0 && !p.step.Serial {
			return
		}
		cr := concReq{Op: p.intent.Op, Code: resp.Code, Step: p.step, Ack: resp.Code >= 200 && resp.Code < 400}
		if c, ok := resp.Cookies[authCookieName]; ok && c.Value != "" {
			if pl := vfJWTPayload(c.Value); pl != nil {
				in := 0
				if ci := w.model.cookies[ctx.req.Cookies[authCookieName]]; ci != nil {
					in = ci.Carried
				}
				cr.Upgrade = vfLevelString(int(jnum(pl, "auth_type")) &^ in)
			}
		}
		w.conc.Reqs = append(w.conc.Reqs, cr)
	})
}

// canonical stored profile (no random material: only what the specification talks about)
func (w *vfWorld) canonProfile(user string) string {
	prof, ok, _, err := w.state.LoadUserProfile(user)
	if err != nil {
		return "error"
	}
	if !ok {
		return "absent"
	}
	var l []string
	for i, d := range prof.U2fAuthData {
		l = append(l, fmt.Sprintf("u2f[%d]{en=%v name=%q}", i, d.Enabled, d.Name))
	}
	for i, d := range prof.TOTPAuthData {
		l = append(l, fmt.Sprintf("totp[%d]{en=%v name=%q}", i, d.Enabled, d.Name))
	}
	sort.Strings(l)
	l = append(l, fmt.Sprintf("pendingTOTP=%v regChallenge=%v bootstrap=%v lastTOTP=%d reg2f=%v",
		prof.PendingTOTPSecret != nil, prof.RegistrationChallenge != nil, len(prof.BootstrapOTP.Sha512Hash) > 0,
		prof.LastSuccessfullTOTPCounter, prof.UserHasRegistered2ndFactor))
	return strings.Join(l, " ")
}

func concFinal(w *vfWorld) {
	for _, u := range []string{"alice", "bob", "mallory", "newbie"} {
		w.conc.Profiles[u] = w.canonProfile(u)
	}
	w.res.Conc = w.conc
	// stored effect of every acknowledged request, read back at the end
	for i := range w.conc.Reqs {
		r := &w.conc.Reqs[i]
		if !r.Ack {
			continue
		}
		r.Effect = w.effectOf(r)
	}
	// (c2) a one-time value presented by concurrent requests is honoured at most once
	hon := map[string]int{}
	for _, r := range w.conc.Reqs {
		if r.Upgrade == "" || r.Step.Par == 0 {
			continue
		}
		switch r.Step.Op {
		case "totp":
			hon["totp-code/"+r.Step.Sess[:1]+r.Step.A]++
		case "bootstrapotp":
			hon["bootstrap-otp/"+r.Step.Sess[:1]+r.Step.A]++
		case "u2fsignresp":
			hon["u2f-challenge/"+r.Step.Target]++
		case "webauthn_finish":
			hon["webauthn-challenge/"+r.Step.Target]++
		}
	}
	for k, n := range hon {
		if n > 1 {
			kind := k[:strings.IndexByte(k, '/')]
			w.violate("C16", "double-spend", "double-spend:"+kind, fmt.Sprintf("one-time value (%s) presented by concurrent requests was honoured %d times", kind, n))
		}
	}
}

// effectOf: is the stored effect the acknowledged request stands for present?
func (w *vfWorld) effectOf(r *concReq) string {
	st := r.Step
	user := st.User
	if user == "" {
		if ci := w.model.cookies[w.session(st.Sess).Cookies[authCookieName]]; ci != nil {
			user = ci.Subject
		} else if len(st.Sess) > 0 {
			user = map[byte]string{'a': "alice", 'b': "bob", 'm': "mallory"}[st.Sess[0]]
		}
	}
	prof, ok, _, err := w.state.LoadUserProfile(user)
	if err != nil {
		return ""
	}
	f := w.model.user(user)
	yes := func(b bool) string {
		if b {
			return "present"
		}
		return "absent"
	}
	switch st.Op {
	case "mgmt":
		var en, exists bool
		var name string
		if st.A == "totp" {
			d, has := prof.TOTPAuthData[f.TOTPIndex]
			exists = has
			if has {
				en, name = d.Enabled, d.Name
			}
		} else {
			t := f.U2FTokens[st.Target]
			if t == nil {
				return ""
			}
			d, has := prof.U2fAuthData[t.Index]
			exists = has
			if has {
				en, name = d.Enabled, d.Name
			}
		}
		switch st.B {
		case "Update":
			return yes(exists && name == fmt.Sprintf("name-%d", st.N))
		case "Disable":
			return yes(!exists || !en)
		case "Enable":
			return yes(exists && en)
		case "Delete":
			return yes(!exists)
		}
	case "totp_new":
		return yes(prof.PendingTOTPSecret != nil)
	case "totp_validate_new":
		for i := range prof.TOTPAuthData {
			if i != f.TOTPIndex || !f.TOTPEnabled {
				return "present" // a device other than the one enrolled in the prefix
			}
		}
		return "absent"
	case "u2f_regreq":
		return yes(prof.RegistrationChallenge != nil)
	case "u2f_regresp":
		for i := range prof.U2fAuthData {
			known := false
			for _, t := range f.U2FTokens {
				if t.Index == i {
					known = true
				}
			}
			if !known {
				return "present" // a token other than those enrolled in the prefix
			}
		}
		return "absent"
	case "totp":
		if r.Upgrade != "" {
			return yes(prof.LastSuccessfullTOTPCounter > 0)
		}
	case "newbootstrap":
		return yes(len(prof.BootstrapOTP.Sha512Hash) > 0)
	case "bootstrapotp":
		if r.Upgrade != "" {
			return yes(len(prof.BootstrapOTP.Sha512Hash) == 0)
		}
	case "adduser":
		return yes(ok)
	case "deluser":
		return yes(!ok)
	}
	return ""
}

var vfOpFamily = map[string]string{"mgmt": "manageToken", "totp_new": "totpGenerateNew", "totp_validate_new": "totpValidateNew",
	"u2f_regreq": "u2fRegisterRequest", "u2f_regresp": "u2fRegisterResponse", "totp": "TOTPAuth", "newbootstrap": "newBootstrapOTP",
	"bootstrapotp": "bootstrapOtpAuth", "adduser": "addUser", "deluser": "deleteUser", "u2fsignresp": "u2fSignResponse",
	"u2fsignreq": "u2fSignRequest", "login": "login", "webauthn_begin": "webauthnAuthBegin", "webauthn_finish": "webauthnAuthFinish", "pushpoll": "vipPollCheck", "vipotp": "vipAuth", "pushstart": "vipPushStart"}

func famOf(st vfStep) string {
	f := vfOpFamily[st.Op]
	if f == "" {
		f = st.Op
	}
	if st.Op == "mgmt" {
		f = "manage" + strings.ToUpper(st.A) + "Token"
	}
	return f
}

// concPost: differential serialisability (pairs only) with attribution of the lost effect
func concPost(t *testing.T, plan *vfPlan, res *vfResult) {
	if res.Conc == nil || res.Infra != "" || plan.NoPost {
		return
	}
	var idx []int
	for i, s := range plan.Steps {
		if s.Par != 0 {
			idx = append(idx, i)
		}
	}
	if len(idx) != 2 {
		return // triples serve race detection and the double-spend oracle only
	}
	for _, v := range res.Violations {
		if v.Prop == "C16" && v.Class == "double-spend" {
			return // same event, sharper class
		}
	}
	conc := res.Conc.sigSorted()
	var serial []*concOutcome
	for _, pm := range permutations(2) {
		q := *plan
		q.NoPost = true
		q.Tape = nil
		q.Steps = append([]vfStep(nil), plan.Steps...)
		for k, src := range pm {
			st := plan.Steps[idx[src]]
			st.Par = 0
			st.Serial = true
			q.Steps[idx[k]] = st
		}
		r := vfRunPlan(t, &q, false)
		if r.Infra != "" || r.Conc == nil {
			res.Infra = "serial reference run failed: " + r.Infra
			return
		}
		serial = append(serial, r.Conc)
	}
	for _, s := range serial {
		if s.sigSorted() == conc {
			return
		}
	}
	// attribute: an acknowledged request whose effect is absent although it is
	// present in every sequential order in which it was acknowledged
	reqs := res.Conc.Reqs
	for i, r := range reqs {
		if !r.Ack || r.Effect != "absent" {
			continue
		}
		ackedSerially, presentSerially := 0, 0
		for _, s := range serial {
			for _, sr := range s.Reqs {
				a, b := sr.Step, r.Step
				a.Par, b.Par, a.Serial, b.Serial = 0, 0, false, false
				if a.String() == b.String() && sr.Ack {
					ackedSerially++
					if sr.Effect == "present" {
						presentSerially++
					}
					break
				}
			}
		}
		// in every sequential order in which the request is acknowledged its effect is stored
		if ackedSerially >= 1 && presentSerially == ackedSerially && len(reqs) == 2 {
			other := reqs[1-i]
			// identified by the call site that overwrites the stored profile with a stale snapshot
			key := fmt.Sprintf("lost-update:stale-save-by:%s", famOf(other.Step))
			res.Violations = append(res.Violations, vfViolation{Prop: "C16", Class: "lost-update", Key: key,
				Detail: fmt.Sprintf("%s answered %d but its effect is not stored at the end (it is in both sequential orders); concurrent request: %s (%d)", r.Op, r.Code, other.Op, other.Code), Step: idx[1]})
			return
		}
	}
	var ops []string
	for _, r := range reqs {
		ops = append(ops, r.Op)
	}
	sort.Strings(ops)
	res.Violations = append(res.Violations, vfViolation{Prop: "C16", Class: "non-serialisable", Key: "non-serialisable:" + strings.Join(ops, "+"),
		Detail: fmt.Sprintf("concurrent outcome equals none of the 2 sequential outcomes; concurrent vs first sequential: %s", sigDiff(conc, serial[0].sigSorted())), Step: idx[1]})
}

func vfOpName(o *concOutcome, st vfStep) string {
	for _, r := range o.Reqs {
		if r.Step.Op == st.Op && r.Step.Sess == st.Sess && r.Step.A == st.A && r.Step.B == st.B && r.Step.Target == st.Target && r.Step.User == st.User {
			return r.Op
		}
	}
	return st.Op
}

// order-insensitive signature (requests sorted by their step text)
func (o *concOutcome) sigSorted() string {
	c := *o
	c.Reqs = append([]concReq(nil), o.Reqs...)
	sort.Slice(c.Reqs, func(i, j int) bool {
		a, b := c.Reqs[i].Step, c.Reqs[j].Step
		a.Par, b.Par, a.Serial, b.Serial = 0, 0, false, false
		if a.String() != b.String() {
			return a.String() < b.String()
		}
		return c.Reqs[i].Code < c.Reqs[j].Code
	})
	return c.sig()
}

func permutations(n int) [][]int {
	if n == 2 {
		return [][]int{{0, 1}, {1, 0}}
	}
	return [][]int{{0, 1, 2}, {0, 2, 1}, {1, 0, 2}, {1, 2, 0}, {2, 0, 1}, {2, 1, 0}}
}

func genConcPlan(r *rand.Rand, tier string) *vfPlan {
	p := &vfPlan{Cfg: vfCfg{TOTP: true, VIP: true, BootstrapOTP: true, PwBackend: "counting",
		CertBackends: []string{"U2F", "TOTP", "SymantecVIP"}, WebUIBackends: []string{"U2F", "TOTP", "password", "SymantecVIP", "BootstrapOTP"}}}
	if chance(r, 0.08) {
		// a sealed server: several injections (and readiness polls) at once
		p.Cfg.Sealed = true
		p.Cfg.Ed25519CA = chance(r, 0.5)
		p.NoPost = true
		g := []vfStep{{Op: "inject", A: "right", B: "operator", Par: 1}, {Op: pick(r, []string{"inject", "inject", "readyz"}), A: pick(r, []string{"right", "right", "wrong"}), B: "operator", Par: 1}}
		if chance(r, 0.5) {
			g = append(g, vfStep{Op: pick(r, []string{"readyz", "inject"}), A: "right", B: "operator", Par: 1})
		}
		p.Steps = append(p.Steps, g...)
		p.Steps = append(p.Steps, vfStep{Op: "readyz"}, vfStep{Op: "verify_published"})
		for i := 0; i < 40; i++ {
			p.Tape = append(p.Tape, r.IntN(6))
		}
		return p
	}
	if chance(r, 0.1) {
		// federated logins in flight while others start or complete, and while the periodic sweeper runs
		p.Cfg.Federated = true
		p.NoPost = true
		p.Steps = append(p.Steps, vfStep{Op: "fedlogin", Sess: "a1"}, vfStep{Op: "idp_auth", Sess: "a1", User: "alice"})
		if chance(r, 0.5) {
			p.Steps = append(p.Steps, vfStep{Op: "advance", D: pick(r, []string{"31s", "65s", "5m", "11m"})})
		}
		g := []vfStep{{Op: "fedcallback", Sess: "a1", Par: 1}, {Op: pick(r, []string{"fedlogin", "fedcallback"}), Sess: pick(r, []string{"a1", "a2"}), A: pick(r, []string{"", "replay", "code:a1"}), Par: 1}}
		if chance(r, 0.4) {
			g = append(g, vfStep{Op: "fedlogin", Sess: "b1", Par: 1})
		}
		p.Steps = append(p.Steps, g...)
		p.Steps = append(p.Steps, vfStep{Op: "advance", D: pick(r, []string{"31s", "65s", "11m"})}, vfStep{Op: "fedlogin", Sess: "b1"}, vfStep{Op: "advance", D: "65s"})
		for i := 0; i < 40; i++ {
			p.Tape = append(p.Tape, r.IntN(6))
		}
		return p
	}
	okta := chance(r, 0.2)
	if okta {
		p.Cfg.PwBackend = "okta"
	}
	add := func(s vfStep) { p.Steps = append(p.Steps, s) }
	// alice: TOTP + two hardware tokens; bob: one token; carol-like "newbie": bootstrap OTP only
	add(vfStep{Op: "setup_totp", User: "alice"})
	add(vfStep{Op: "setup_u2f", User: "alice", Target: "tok1"})
	add(vfStep{Op: "setup_u2f", User: "alice", Target: "tok2"})
	add(vfStep{Op: "setup_u2f", User: "bob", Target: "tok3"})
	add(vfStep{Op: "setup_totp", User: "bob"})
	add(vfStep{Op: "setup_bootstrap", User: "mallory", D: "1h"})
	add(vfStep{Op: "login", Sess: "a1", User: "alice"})
	add(vfStep{Op: "login", Sess: "a2", User: "alice"})
	add(vfStep{Op: "login", Sess: "b1", User: "bob"})
	add(vfStep{Op: "login", Sess: "m1", User: "mallory"})
	add(vfStep{Op: "login", Sess: "m2", User: "mallory"})
	// some sequential preparation that creates pending state
	if chance(r, 0.5) {
		add(vfStep{Op: "totp_new", User: "alice"})
	}
	if chance(r, 0.5) {
		add(vfStep{Op: "u2f_regreq", User: "alice"})
	}
	if chance(r, 0.5) {
		add(vfStep{Op: "u2fsignreq", Sess: "a1"})
	}
	if chance(r, 0.5) {
		add(vfStep{Op: "webauthn_begin", Sess: pick(r, []string{"a1", "a2", "b1"})})
	}
	if chance(r, 0.3) {
		add(vfStep{Op: "pushstart", Sess: "a1"})
		add(vfStep{Op: "approve", User: "alice"})
	}
	add(vfStep{Op: "advance", D: "3s"})
	cands := func(u string) []vfStep {
		tok := pick(r, []string{"tok1", "tok2"})
		sess := pick(r, []string{"a1", "a2"})
		if u == "bob" {
			tok, sess = "tok3", "b1"
		}
		return []vfStep{
			{Op: "mgmt", User: u, A: "u2f", B: "Update", Target: tok, N: int64(r.IntN(100))},
			{Op: "mgmt", User: u, A: "u2f", B: "Disable", Target: tok},
			{Op: "mgmt", User: u, A: "u2f", B: "Enable", Target: tok},
			{Op: "mgmt", User: u, A: "u2f", B: "Delete", Target: tok},
			{Op: "mgmt", User: u, A: "totp", B: "Update", N: int64(r.IntN(100))},
			{Op: "mgmt", User: u, A: "totp", B: "Disable"},
			{Op: "mgmt", User: u, A: "totp", B: "Enable"},
			{Op: "mgmt", User: u, A: "totp", B: "Delete"},
			{Op: "totp_new", User: u},
			{Op: "totp_validate_new", User: u},
			{Op: "u2f_regreq", User: u},
			{Op: "u2f_regresp", User: u, Target: "tok5"},
			{Op: "totp", Sess: sess, A: "cur"},
			{Op: "u2fsignreq", Sess: sess},
			{Op: "u2fsignresp", Sess: sess, Target: tok},
			{Op: "login", Sess: sess + "x", User: u},
			{Op: "pushpoll", Sess: sess},
			{Op: "vipotp", Sess: sess, A: "cur"},
			{Op: "pushstart", Sess: sess},
			{Op: "webauthn_begin", Sess: sess},
			{Op: "webauthn_finish", Sess: sess, Target: tok},
			{Op: "webauthn_finish", Sess: sess, Target: tok, B: pick(r, []string{"malformed", "garbage"})},
		}
	}
	n := 2
	if chance(r, 0.15) {
		n = 3
	}
	var group []vfStep
	if okta && chance(r, 0.7) {
		// the Okta authenticator keeps per-user session state of its own: logins, code checks and push polls of one
		// or two users at once, with fresh or lapsed (5 minutes) Okta sessions
		if chance(r, 0.5) {
			add(vfStep{Op: "oktapushstart", Sess: "a1"})
			if chance(r, 0.7) {
				add(vfStep{Op: "okta_device", User: "alice", A: pick(r, []string{"approve", "approve", "deny"})})
			}
		}
		if chance(r, 0.5) {
			add(vfStep{Op: "advance", D: pick(r, []string{"4m", "5m2s", "6m"})})
		}
		oc := []vfStep{{Op: "oktaotp", Sess: "a1", A: "cur"}, {Op: "oktaotp", Sess: "a2", A: "cur"}, {Op: "oktapoll", Sess: "a1"}, {Op: "oktapoll", Sess: "a2"}, {Op: "oktapushstart", Sess: "a2"},
			{Op: "login", Sess: "a1x", User: "alice"}, {Op: "login", Sess: "b1x", User: "bob"}, {Op: "oktapoll", Sess: "b1"}, {Op: "oktaotp", Sess: "b1", A: "cur"}, {Op: "login", Sess: "a2x", User: "alice", A: "wrong"}}
		for len(group) < n {
			c := pick(r, oc)
			dup := false
			for _, g := range group {
				if g.String() == c.String() {
					dup = true
				}
			}
			if !dup {
				group = append(group, c)
			}
		}
		for i := range group {
			group[i].Par = 1
		}
		p.Steps = append(p.Steps, group...)
		for i := 0; i < 40; i++ {
			p.Tape = append(p.Tape, r.IntN(6))
		}
		return p
	}
	coldAdmin := false
	switch r.IntN(12) {
	case 0:
		// the same one-time TOTP code presented by two sessions at once
		group = []vfStep{{Op: "totp", Sess: "a1", A: "cur"}, {Op: "totp", Sess: "a2", A: "cur"}}
	case 1:
		// the same bootstrap OTP presented twice at once
		group = []vfStep{{Op: "bootstrapotp", Sess: "m1"}, {Op: "bootstrapotp", Sess: "m2"}}
		if chance(r, 0.4) {
			group[1] = vfStep{Op: "newbootstrap", User: "mallory"}
			if chance(r, 0.5) {
				group[0] = vfStep{Op: "adduser", User: "newbie"}
				coldAdmin = true
			}
		}
	case 6:
		// the same WebAuthn assertion delivered twice (double submit, a retrying proxy)
		p.Steps = append(p.Steps, vfStep{Op: "webauthn_begin", Sess: "a1"})
		group = []vfStep{{Op: "webauthn_finish", Sess: "a1", Target: "tok1"}, {Op: "webauthn_finish", Sess: "a2", Target: "tok1", A: "sess:a1"}}
		if chance(r, 0.4) {
			group = append(group, vfStep{Op: pick(r, []string{"webauthn_begin", "webauthn_begin", "u2fsignreq"}), Sess: pick(r, []string{"a1", "a2"})})
		}
	case 2, 5:
		// the same hardware-token assertion delivered twice
		p.Steps = append(p.Steps, vfStep{Op: "u2fsignreq", Sess: "a1"})
		group = []vfStep{{Op: "u2fsignresp", Sess: "a1", Target: "tok1"}, {Op: "u2fsignresp", Sess: "a2", Target: "tok1", A: "sess:a1"}}
		if chance(r, 0.65) {
			// ... while the user also asks for a fresh challenge
			group = append(group, vfStep{Op: pick(r, []string{"u2fsignreq", "u2fsignreq", "webauthn_begin"}), Sess: pick(r, []string{"a1", "a2"})})
		}
	case 4:
		// error paths of the hardware-token login racing other users of the challenge table
		p.Steps = append(p.Steps, vfStep{Op: "webauthn_begin", Sess: "a1"})
		group = []vfStep{{Op: "webauthn_finish", Sess: "a1", Target: "tok1", B: pick(r, []string{"malformed", "garbage", ""})},
			pick(r, []vfStep{{Op: "u2fsignreq", Sess: "b1"}, {Op: "webauthn_begin", Sess: "b1"}, {Op: "webauthn_begin", Sess: "a2"}, {Op: "u2fsignresp", Sess: "b1", Target: "tok3"}, {Op: "webauthn_finish", Sess: "a2", Target: "tok1", A: "sess:a1"}})}
	case 3:
		group = []vfStep{{Op: "adduser", User: "newbie"}, {Op: "adduser", User: "newbie"}}
		if chance(r, 0.5) {
			group[1] = vfStep{Op: "deluser", User: "newbie"}
		}
		// the administrator's cached standing (5 minutes) has lapsed: both requests re-establish it
		coldAdmin = chance(r, 0.6)
	default:
		// half of the free groups pair a token-management request (whose acknowledged effect is easy to observe) with any other request of the same user
		mgmtFirst := chance(r, 0.5)
		for len(group) < n {
			u := "alice"
			if chance(r, 0.12) && !mgmtFirst {
				u = "bob"
			}
			cs := cands(u)
			c := pick(r, cs)
			if mgmtFirst && len(group) == 0 {
				c = pick(r, cs[:8])
			} else if mgmtFirst {
				c = pick(r, cs[8:])
				if chance(r, 0.35) {
					// the handlers that run on every login are the likeliest partners in a deployment
					for _, x := range cs {
						if x.Op == pick(r, []string{"u2fsignresp", "webauthn_finish", "totp"}) && x.B == "" {
							c = x
							break
						}
					}
				}
			}
			dup := false
			for _, g := range group {
				if g.String() == c.String() {
					dup = true
				}
			}
			if !dup {
				group = append(group, c)
			}
		}
	}
	// most of the time the pending state a request needs to take its success path is created just before the group
	for _, g := range group {
		if !chance(r, 0.8) {
			continue
		}
		switch g.Op {
		case "u2fsignresp":
			if g.A == "" {
				p.Steps = append(p.Steps, vfStep{Op: "u2fsignreq", Sess: g.Sess})
			}
		case "webauthn_finish":
			if g.A == "" {
				p.Steps = append(p.Steps, vfStep{Op: "webauthn_begin", Sess: g.Sess})
			}
		case "totp_validate_new":
			p.Steps = append(p.Steps, vfStep{Op: "totp_new", User: g.User})
		case "u2f_regresp":
			p.Steps = append(p.Steps, vfStep{Op: "u2f_regreq", User: g.User})
		case "pushpoll":
			p.Steps = append(p.Steps, vfStep{Op: "pushstart", Sess: g.Sess}, vfStep{Op: "approve", User: "alice"})
		}
	}
	if coldAdmin {
		p.Steps = append(p.Steps, vfStep{Op: "advance", D: pick(r, []string{"5m1s", "6m", "11m"})})
	}
	// event-stream subscribers come and go around requests that publish (every login does)
	subs := chance(r, 0.12)
	if subs && chance(r, 0.5) {
		p.Steps = append(p.Steps, vfStep{Op: "subscribe", N: 1, A: "fast"})
	}
	if subs {
		if len(group) >= 3 || chance(r, 0.5) {
			group = group[:len(group)-1]
		}
		if chance(r, 0.5) {
			group = append(group, vfStep{Op: "login", Sess: "b1v", User: "bob"})
		}
		if len(p.Steps) > 0 && p.Steps[len(p.Steps)-1].Op == "subscribe" && chance(r, 0.5) {
			group = append(group, vfStep{Op: "unsubscribe", N: 1})
		} else {
			group = append(group, vfStep{Op: "subscribe", N: 3, A: "fast"})
		}
	}
	for i := range group {
		group[i].Par = 1
	}
	p.Steps = append(p.Steps, group...)
	if subs {
		p.Steps = append(p.Steps, vfStep{Op: "login", Sess: "b1y", User: "bob"}, vfStep{Op: "subscribe", N: 2, A: "fast"}, vfStep{Op: "login", Sess: "b1z", User: "bob"},
			vfStep{Op: "unsubscribe", N: int64(1 + r.IntN(2))}, vfStep{Op: "login", Sess: "b1w", User: "bob"})
	}
	// the tape: random choices; the scheduler normalises it to the choices taken.  A few entries (>= 100) let
	// simulated time pass at that decision: one request stalls for seconds in the middle while the other completes
	oneTime := len(group) >= 2 && (group[0].Op == "totp" || group[0].Op == "bootstrapotp" || group[0].Op == "u2fsignresp" || group[0].Op == "webauthn_finish") && group[0].Op == group[1].Op
	stall := oneTime && chance(r, 0.5)
	for i := 0; i < 40; i++ {
		v := r.IntN(6)
		if stall && chance(r, 0.15) {
			v += 100
		}
		p.Tape = append(p.Tape, v)
	}
	if stall {
		p.NoPost = true // the sequential reference runs see no stall: only the one-time-value and race oracles judge this run
	}
	return p
}

func sigDiff(a, b string) string {
	pa, pb := strings.Split(a, " || "), strings.Split(b, " || ")
	var d []string
	for i := 0; i < len(pa) || i < len(pb); i++ {
		x, y := "", ""
		if i < len(pa) {
			x = pa[i]
		}
		if i < len(pb) {
			y = pb[i]
		}
		if x != y {
			d = append(d, fmt.Sprintf("[%s] vs [%s]", x, y))
		}
	}
	return strings.Join(d, "; ")
}
