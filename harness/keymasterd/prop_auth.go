package main

// Workload generators for the session/certificate properties
// C01 (who gets a certificate), C02 (what it binds), C03 (how long it lives),
// C05 (how a session gains factors).  All share the same vocabulary and the
// same always-on monitors; they differ in emphasis.

import (
	"fmt"
	"math/rand/v2"
	"regexp"
	"strings"
	"time"
)

var vfAllCertBackends = []string{"password", "federated", "U2F", "SymantecVIP", "IPCertificate", "TOTP", "Okta2FA", "BootstrapOTP", "WebauthForCLI"}

func pick[T any](r *rand.Rand, l []T) T { return l[r.IntN(len(l))] }
func chance(r *rand.Rand, p float64) bool { return r.Float64() < p }

func subset(r *rand.Rand, l []string, p float64) []string {
	var o []string
	for _, x := range l {
		if chance(r, p) {
			o = append(o, x)
		}
	}
	return o
}

func init() {
	vfExtraOps["setup_totp"] = func(w *vfWorld, st vfStep, p *vfPrepared) *vfPrepared {
		p.env = func() { w.setupEnrollTOTP(st.User); time.Sleep(1100 * time.Millisecond) }
		return p
	}
	vfExtraOps["setup_u2f"] = func(w *vfWorld, st vfStep, p *vfPrepared) *vfPrepared {
		p.env = func() { w.setupEnrollU2F(st.User, st.Target); time.Sleep(1100 * time.Millisecond) }
		return p
	}
	vfExtraOps["setup_bootstrap"] = func(w *vfWorld, st vfStep, p *vfPrepared) *vfPrepared {
		p.env = func() { w.setupBootstrapOTP(st.User, st.D) }
		return p
	}
	// the N-th storage call of the next request fails (disk / connection error)
	vfExtraOps["dbfail"] = func(w *vfWorld, st vfStep, p *vfPrepared) *vfPrepared {
		p.env = func() { w.pendingDBFault = int(st.N) }
		return p
	}
	vfExtraOps["vipfail"] = func(w *vfWorld, st vfStep, p *vfPrepared) *vfPrepared {
		p.env = func() { w.vipsim.Fail = st.N != 0; w.fault("2fa.backend.error") }
		return p
	}
}

func genAuthCfg(r *rand.Rand) vfCfg {
	c := vfCfg{TOTP: true, VIP: true, BootstrapOTP: true, PwBackend: "counting"}
	// acceptable methods for certificates: any subset (biased to small ones)
	switch r.IntN(6) {
	case 0:
		c.CertBackends = []string{pick(r, vfAllCertBackends)}
	case 1:
		c.CertBackends = subset(r, vfAllCertBackends, 0.5)
	default:
		c.CertBackends = subset(r, vfAllCertBackends, 0.25)
	}
	c.WebUIBackends = subset(r, []string{"password", "U2F", "SymantecVIP", "TOTP", "BootstrapOTP", "federated"}, 0.4)
	if len(c.WebUIBackends) == 0 {
		c.WebUIBackends = []string{"U2F"}
	}
	c.Ed25519CA = chance(r, 0.5)
	if chance(r, 0.3) {
		c.Kerberos = "SIM.EXAMPLE"
	}
	c.DisableNorm = chance(r, 0.2)
	switch r.IntN(6) {
	case 0:
		c.SSHExt = [][2]string{{"login@github.com", "${USERNAME}"}}
	case 1:
		c.SSHExt = [][2]string{{"login@github.com", "${USERNAME//./-}"}, {"x-role", "user"}}
	case 2:
		// flag style extensions: the value is empty
		c.SSHExt = [][2]string{{"no-touch-required", ""}, {"login@github.com", "${USERNAME}"}}
	case 3:
		c.SSHExt = [][2]string{{"flag-${USERNAME}@example.com", ""}}
	}
	if chance(r, 0.3) {
		// a published-keys file that already lists this server's own CA key(s) and/or another keymaster's
		c.PubKeys = subset(r, []string{"ca_rsa", "ca_rsa_alt", "ca_ed25519"}, 0.5)
		if containsStr(c.PubKeys, "ca_rsa") && chance(r, 0.7) {
			c.Ed25519CA = true // several instances sharing one keys file, each with both CAs
		}
	}
	if chance(r, 0.5) {
		c.CliTokenLife = pick(r, []string{"1h", "30m", "24h", "36h", "100h"})
	}
	if c.CliTokenLife != "" && !containsStr(c.CertBackends, "WebauthForCLI") && chance(r, 0.4) {
		c.CertBackends = append(c.CertBackends, "WebauthForCLI") // CLI web-auth tokens exist to obtain certificates with
	}
	c.GroupsLDAP = chance(r, 0.5)
	if chance(r, 0.25) {
		c.DenyKeys = subset(r, []string{"user_p256_1", "user_rsa2048_2", "user_ed25519_3"}, 0.6)
	}
	if chance(r, 0.15) {
		// passwords and second factors checked by (simulated) Okta through the real Okta authenticator
		c.PwBackend = "okta"
	}
	c.AwsRoles = chance(r, 0.3)
	c.Federated = chance(r, 0.2) // oauth2 login through a (simulated) identity provider
	return c
}

var vfHonestUsers = []string{"alice", "bob", "mallory"}
var vfNetChoices = []string{"10.20.128.0/20", "192.0.2.0/24", "10.0.0.0/8", "172.16.5.4/30", "198.51.100.77/32", "0.0.0.0/1"}
var vfPeerChoices = []string{"10.20.130.7", "10.20.144.1", "10.20.1.1", "192.0.2.10", "192.0.3.10", "10.9.9.9", "172.16.5.5", "172.16.5.8", "198.51.100.77", "198.51.100.78", "203.0.113.9", "2001:db8::1"}
var vfSessNames = []string{"s1", "s2", "s3"}

// genAuthPlan: focus is one of C01, C02, C03, C05
func genAuthPlan(r *rand.Rand, tier, focus string) *vfPlan {
	p := &vfPlan{Cfg: genAuthCfg(r)}
	if focus == "C03" && p.Cfg.CliTokenLife != "" && chance(r, 0.4) {
		// CLI sessions that outlive a day, and are good for certificates
		p.Cfg.CliTokenLife = pick(r, []string{"36h", "100h"})
		if !containsStr(p.Cfg.CertBackends, "WebauthForCLI") {
			p.Cfg.CertBackends = append(p.Cfg.CertBackends, "WebauthForCLI")
		}
	}
	add := func(s vfStep) { p.Steps = append(p.Steps, s) }
	// enrolments
	tokN := 0
	enrolledTOTP := map[string]bool{}
	enrolledU2F := map[string][]string{}
	for _, u := range vfHonestUsers {
		if chance(r, 0.6) {
			add(vfStep{Op: "setup_totp", User: u})
			enrolledTOTP[u] = true
		}
		if chance(r, 0.6) {
			tokN++
			t := fmt.Sprintf("tok%d", tokN)
			add(vfStep{Op: "setup_u2f", User: u, Target: t})
			enrolledU2F[u] = append(enrolledU2F[u], t)
		}
		if !enrolledTOTP[u] && len(enrolledU2F[u]) == 0 && chance(r, 0.5) {
			add(vfStep{Op: "setup_bootstrap", User: u, D: pick(r, []string{"5m", "1h", "61s"})})
		}
	}
	n := 10 + r.IntN(20)
	if tier == "thorough" {
		n = 15 + r.IntN(35)
	}
	sessUser := map[string]string{}
	if focus == "C05" && chance(r, 0.12) {
		// one-time value under a storage fault: the OTP is presented while the N-th storage call of
		// that request fails, then presented again from another session of the same user
		u := pick(r, vfHonestUsers)
		p.Steps = nil
		add(vfStep{Op: "setup_bootstrap", User: u, D: "1h"})
		add(vfStep{Op: "login", Sess: "s1", User: u})
		add(vfStep{Op: "login", Sess: "s2", User: u})
		if chance(r, 0.8) {
			add(vfStep{Op: "dbfail", N: int64(1 + r.IntN(7))})
		}
		add(vfStep{Op: "bootstrapotp", Sess: "s1"})
		add(vfStep{Op: "bootstrapotp", Sess: "s2"})
		add(vfStep{Op: "certgen", Sess: "s1", User: u, A: "x509", B: "user_p256_1"})
		add(vfStep{Op: "certgen", Sess: "s2", User: u, A: "x509", B: "user_p256_1"})
		sessUser["s1"], sessUser["s2"] = u, u
		n = 4 + r.IntN(6)
	}
	if focus == "C05" && chance(r, 0.06) {
		// a one-time code accepted while the primary store is unreachable (profiles come from the cache, nothing can be
		// saved) is presented again by another session a few seconds later
		u := pick(r, vfHonestUsers)
		p.Steps = nil
		add(vfStep{Op: "setup_totp", User: u})
		add(vfStep{Op: "advance", D: pick(r, []string{"31s", "61s", "25h"})})
		add(vfStep{Op: "login", Sess: "s1", User: u})
		add(vfStep{Op: "login", Sess: "s2", User: u})
		add(vfStep{Op: "sync"})
		add(vfStep{Op: "stall"})
		add(vfStep{Op: "totp", Sess: "s1", A: "cur"})
		add(vfStep{Op: "advance", D: pick(r, []string{"3s", "3s", "5s", "12s"})})
		if chance(r, 0.6) {
			// a mistyped code in between
			add(vfStep{Op: "totp", Sess: "s2", A: "wrong"})
			add(vfStep{Op: "advance", D: "3s"})
		}
		add(vfStep{Op: "totp", Sess: "s2", A: "used"})
		add(vfStep{Op: "heal"})
		add(vfStep{Op: "certgen", Sess: "s2", User: u, A: "x509", B: "user_p256_1"})
		sessUser["s1"], sessUser["s2"] = u, u
		n = 3 + r.IntN(5)
	} else if focus == "C05" && p.Cfg.PwBackend != "okta" && chance(r, 0.05) {
		// a push nobody answers is polled once the service has let it lapse (or has forgotten it)
		u := pick(r, vfHonestUsers)
		p.Steps = nil
		add(vfStep{Op: "login", Sess: "s1", User: u})
		add(vfStep{Op: "pushstart", Sess: "s1"})
		add(vfStep{Op: "advance", D: pick(r, []string{"119s", "121s", "125s", "131s", "145s"})})
		add(vfStep{Op: "pushpoll", Sess: "s1"})
		add(vfStep{Op: "certgen", Sess: "s1", User: u, A: "x509", B: "user_p256_1"})
		sessUser["s1"] = u
		n = 3 + r.IntN(5)
	} else if focus == "C05" && chance(r, 0.06) {
		// a bootstrap OTP presented around the end of its life: seconds before, seconds after
		u := pick(r, vfHonestUsers)
		p.Steps = nil
		add(vfStep{Op: "setup_bootstrap", User: u, D: pick(r, []string{"5m", "61s", "1h"})})
		add(vfStep{Op: "login", Sess: "s1", User: u})
		d := map[string]time.Duration{"5m": 5 * time.Minute, "61s": 61 * time.Second, "1h": time.Hour}[p.Steps[0].D]
		add(vfStep{Op: "advance", D: (d + time.Duration(pick(r, []int{-20, -2, 2, 20, 45, 59, 75}))*time.Second).String()})
		add(vfStep{Op: "bootstrapotp", Sess: "s1"})
		add(vfStep{Op: "certgen", Sess: "s1", User: u, A: "x509", B: "user_p256_1"})
		sessUser["s1"] = u
		n = 3 + r.IntN(5)
	}
	if focus == "C03" && chance(r, 0.12) {
		// a client certificate obtained earlier is, hours later, the only credential of a new request
		u := pick(r, vfHonestUsers)
		add(vfStep{Op: "mintsession", Sess: "cs", User: u, N: int64(AuthTypeU2F | AuthTypePassword)})
		add(vfStep{Op: "certgen", Sess: "cs", User: u, A: "x509", B: pick(r, []string{"user_p256_1", "user_rsa2048_2"}), D: "24h"})
		add(vfStep{Op: "advance", D: pick(r, []string{"1h", "12h", "20h", "23h"})})
		add(vfStep{Op: "certgen", Sess: "s3", User: u, A: pick(r, []string{"ssh", "x509", "x509"}), B: pick(r, vfUserKeyNames), D: pick(r, []string{"", "24h", "8h"}), C: "cert:last:usercert:" + u})
	}
	if focus == "C05" && p.Cfg.DisableNorm && chance(r, 0.3) {
		// two accounts that differ only in case: the lower-case one holds a client certificate and its own second
		// factor, and a password-level session of the other one
		u := pick(r, vfHonestUsers)
		twin := strings.ToUpper(u[:1]) + u[1:]
		if !enrolledTOTP[u] {
			add(vfStep{Op: "setup_totp", User: u})
			enrolledTOTP[u] = true
		}
		add(vfStep{Op: "advance", D: "31s"})
		add(vfStep{Op: "mintsession", Sess: "s3", User: twin, N: int64(AuthTypePassword)})
		sessUser["s3"] = twin
		add(vfStep{Op: "mintsession", Sess: "cs", User: u, N: int64(AuthTypeU2F | AuthTypePassword)})
		add(vfStep{Op: "certgen", Sess: "cs", User: u, A: "x509", B: "user_p256_1", D: "8h"})
		add(vfStep{Op: "attachcert", Sess: "s3", C: "last:usercert:" + u})
		add(vfStep{Op: pick(r, []string{"totp", "vipotp"}), Sess: "s3", A: "other:" + u})
		add(vfStep{Op: "certgen", Sess: "s3", User: "@jar", A: "x509", B: "user_p256_2"})
	}
	mintShare := 0.25
	ipcertShare := 2
	if focus == "C01" {
		mintShare = 0.6
		if chance(r, 0.4) {
			// an automation certificate exists from the start and is a frequent credential
			add(vfStep{Op: "mintsession", Sess: "adm", User: pick(r, []string{"root", "autoadmin"}), N: int64(AuthTypeU2F | AuthTypePassword)})
			add(vfStep{Op: "rolecert", Sess: "adm", A: pick(r, []string{"auto1", "auto2"}), L: []string{pick(r, vfNetChoices)}, B: pick(r, []string{"user_p256_3", "user_rsa2048_4"}),
				D: pick(r, []string{"", "", "1h", "12h", "24h"})}) // the short-lived ones run out during the run
			ipcertShare = 6
			if !containsStr(p.Cfg.CertBackends, "IPCertificate") && chance(r, 0.7) {
				p.Cfg.CertBackends = append(p.Cfg.CertBackends, "IPCertificate")
			}
		}
	}
	anyTok := func() string {
		if tokN == 0 {
			return "tok1"
		}
		return fmt.Sprintf("tok%d", 1+r.IntN(tokN))
	}
	keyFor := func(typ string) string {
		k := pick(r, vfUserKeyNames)
		if p.Cfg.Ed25519CA && (typ == "" || typ == "ssh") && chance(r, 0.3) {
			k = pick(r, []string{"user_ed25519_1", "user_ed25519_2", "user_ed25519_3"}) // the second CA gets its share of work
		}
		return k
	}
	durations := []string{"", "", "1h", "24h", "30m", "1s", "0s", "-1h", "100h", "24h0m0.000000001s", "1h30m", "86400s", "1.5h", "9223372036s", "-9223372036s", "10X", "1ns", "0.5s", "23h59m59s", "2562047h", "-2562047h47m16.854775807s", "2562047h47m16.854775807s"}
	advances := []string{"1s", "2s", "3s", "29s", "31s", "61s", "119s", "121s", "5m", "10m", "1h", "8h", "15h59m", "16h1m", "23h59m", "24h1m"}
	for i := 0; i < n; i++ {
		s := pick(r, vfSessNames)
		u := sessUser[s]
		x := r.IntN(100)
		sf := 30 // share of second-factor steps
		if focus == "C05" {
			sf = 48
		}
		switch {
		case (u == "" || x < 8) && chance(r, mintShare):
			// a session carrying an arbitrary set of factor bits (authentic, minted by the server's own code)
			nu := pick(r, vfHonestUsers)
			bits := 0
			for _, b := range []int{AuthTypePassword, AuthTypeFederated, AuthTypeU2F, AuthTypeSymantecVIP, AuthTypeIPCertificate, AuthTypeTOTP, AuthTypeOkta2FA, AuthTypeBootstrapOTP, AuthTypeKeymasterX509, AuthTypeWebauthForCLI, AuthTypeFIDO2} {
				if chance(r, 0.25) {
					bits |= b
				}
			}
			if chance(r, 0.3) {
				bits = pick(r, []int{AuthTypePassword, AuthTypePassword | AuthTypeBootstrapOTP, AuthTypePassword | AuthTypeTOTP, AuthTypeFederated, AuthTypeWebauthForCLI, AuthTypeKeymasterX509, AuthTypeFIDO2, AuthTypePassword | AuthTypeOkta2FA, 0})
			}
			if p.Cfg.DisableNorm && chance(r, 0.35) {
				nu = strings.ToUpper(nu[:1]) + nu[1:] // without normalisation "Bob" is an account of its own
			}
			ms := vfStep{Op: "mintsession", Sess: s, User: nu, N: int64(bits), D: pick(r, []string{"16h", "16h", "1h", "10m", "45s", "15h"})}
			if chance(r, 0.08) {
				ms.A = "notyet:" + pick(r, []string{"30s", "10m", "2h"})
			} else if chance(r, 0.06) {
				ms.A = fmt.Sprintf("iss:%d", r.IntN(4))
			}
			add(ms)
			sessUser[s] = nu
		case u == "" || x < 8:
			nu := pick(r, vfHonestUsers)
			via := pick(r, []string{"form", "form", "basic", "html"})
			name := nu
			if chance(r, 0.15) {
				name = strings.ToUpper(nu[:1]) + nu[1:]
			}
			pw := ""
			if chance(r, 0.1) {
				pw = "wrong"
			}
			add(vfStep{Op: "login", Sess: s, User: name, A: pw, B: via})
			if pw == "" {
				sessUser[s] = nu
				// an honest user usually goes straight on to a second factor
				if chance(r, 0.65) {
					switch f := r.IntN(4); {
					case f == 0 && enrolledTOTP[nu]:
						add(vfStep{Op: "totp", Sess: s, A: "cur"})
					case f == 1:
						add(vfStep{Op: "vipotp", Sess: s, A: "cur"})
					case f == 2 && len(enrolledU2F[nu]) > 0:
						add(vfStep{Op: "u2fsignreq", Sess: s})
						add(vfStep{Op: "u2fsignresp", Sess: s, Target: pick(r, enrolledU2F[nu])})
					case f == 3:
						add(vfStep{Op: "pushstart", Sess: s})
						add(vfStep{Op: "approve", User: nu})
						add(vfStep{Op: "pushpoll", Sess: s})
					}
				}
			}
		case x < sf:
			// a second factor step, sometimes adversarial
			switch r.IntN(7) {
			case 0, 1:
				a := pick(r, []string{"cur", "cur", "cur", "prev", "used", "wrong", "old", "other:" + pick(r, vfHonestUsers)})
				add(vfStep{Op: "totp", Sess: s, A: a})
			case 2:
				a := pick(r, []string{"cur", "cur", "wrong", "other:" + pick(r, vfHonestUsers)})
				add(vfStep{Op: "vipotp", Sess: s, A: a})
			case 3:
				add(vfStep{Op: "pushstart", Sess: s})
				if chance(r, 0.15) {
					add(vfStep{Op: "advance", D: pick(r, []string{"61s", "119s", "121s", "3m", "10m"})})
				}
				if chance(r, 0.7) {
					add(vfStep{Op: pick(r, []string{"approve", "approve", "deny"}), User: pick(r, vfHonestUsers)})
				}
				if chance(r, 0.8) {
					ps := s
					if chance(r, 0.3) {
						ps = pick(r, vfSessNames)
					}
					st := vfStep{Op: "pushpoll", Sess: ps}
					if chance(r, 0.3) {
						st.A = "sess:" + pick(r, vfSessNames)
					}
					add(st)
				}
			case 4:
				if chance(r, 0.5) {
					// the WebAuthn endpoints (U2F-compatible branch)
					add(vfStep{Op: "webauthn_begin", Sess: s})
					if chance(r, 0.2) {
						add(vfStep{Op: "advance", D: pick(r, []string{"29s", "61s", "2m", "5m", "10m"})})
					}
					if chance(r, 0.85) {
						tok := anyTok()
						if l := enrolledU2F[u]; len(l) > 0 && chance(r, 0.7) {
							tok = pick(r, l)
						}
						ps := s
						if chance(r, 0.2) {
							ps = pick(r, vfSessNames)
						}
						st := vfStep{Op: "webauthn_finish", Sess: ps, Target: tok}
						if chance(r, 0.3) {
							st.A = pick(r, []string{"sess:" + pick(r, vfSessNames), "stale", "replay"})
						}
						add(st)
						if chance(r, 0.45) {
							// the identical assertion delivered again, by the same or another session of the user
							rs := ps
							if chance(r, 0.6) {
								rs = pick(r, vfSessNames)
								// preferably another session of the same user
								for _, cand := range vfSessNames {
									if cand != ps && sessUser[cand] == u && u != "" {
										rs = cand
									}
								}
							}
							add(vfStep{Op: "webauthn_finish", Sess: rs, Target: tok, A: "sess:" + ps})
						}
					}
					break
				}
				add(vfStep{Op: "u2fsignreq", Sess: s})
				if chance(r, 0.2) {
					// the user is slow: the challenge may have lapsed (and been swept) by the time the token answers
					add(vfStep{Op: "advance", D: pick(r, []string{"29s", "61s", "2m", "5m", "10m"})})
				}
				if chance(r, 0.85) {
					tok := anyTok()
					if l := enrolledU2F[u]; len(l) > 0 && chance(r, 0.7) {
						tok = pick(r, l)
					}
					ps := s
					if chance(r, 0.2) {
						ps = pick(r, vfSessNames)
					}
					st := vfStep{Op: "u2fsignresp", Sess: ps, Target: tok}
					if chance(r, 0.3) {
						st.A = pick(r, []string{"sess:" + pick(r, vfSessNames), "stale", "replay"})
					}
					add(st)
					if chance(r, 0.3) {
						// the identical sign response delivered again
						rs := ps
						if chance(r, 0.5) {
							rs = pick(r, vfSessNames)
						}
						add(vfStep{Op: "u2fsignresp", Sess: rs, Target: tok, A: "sess:" + ps})
					}
				}
			case 5:
				if chance(r, 0.3) {
					add(vfStep{Op: "dbfail", N: int64(1 + r.IntN(6))})
				}
				add(vfStep{Op: "bootstrapotp", Sess: s, A: pick(r, []string{"", "", "wrong", "used", "other:" + pick(r, vfHonestUsers)})})
				if chance(r, 0.3) {
					add(vfStep{Op: "bootstrapotp", Sess: pick(r, vfSessNames), A: ""})
				}
			case 6:
				add(vfStep{Op: "pushpoll", Sess: s, A: "sess:" + pick(r, vfSessNames)})
			}
			if p.Cfg.Federated && chance(r, 0.5) {
				// login through the identity provider, honest or not
				add(vfStep{Op: "fedlogin", Sess: s})
				who := pick(r, vfHonestUsers)
				add(vfStep{Op: "idp_auth", Sess: s, User: who, A: pick(r, []string{"", "", "email"})})
				if chance(r, 0.15) {
					add(vfStep{Op: "advance", D: pick(r, []string{"31s", "5m", "11m"})})
				}
				cb := vfStep{Op: "fedcallback", Sess: s, A: pick(r, []string{"", "", "", "wrongstate", "nocookie", "code:" + pick(r, vfSessNames)})}
				add(cb)
				if cb.A == "" {
					sessUser[s] = who
					if chance(r, 0.3) {
						add(vfStep{Op: "fedcallback", Sess: pick(r, []string{s, s, pick(r, vfSessNames)}), A: "replay"})
					}
				}
			}
			if p.Cfg.PwBackend == "okta" && chance(r, 0.5) {
				switch r.IntN(3) {
				case 0:
					add(vfStep{Op: "oktaotp", Sess: s, A: pick(r, []string{"cur", "cur", "prev", "wrong", "other:" + pick(r, vfHonestUsers)})})
					if chance(r, 0.3) {
						add(vfStep{Op: "oktaotp", Sess: pick(r, vfSessNames), A: "cur"}) // the same code again, maybe by another session
					}
				case 1:
					add(vfStep{Op: "oktapushstart", Sess: s})
					if chance(r, 0.7) {
						add(vfStep{Op: "okta_device", User: pick(r, vfHonestUsers), A: pick(r, []string{"approve", "approve", "deny"})})
					}
					add(vfStep{Op: "oktapoll", Sess: pick(r, []string{s, s, pick(r, vfSessNames)})})
				default:
					add(vfStep{Op: "oktapoll", Sess: s})
				}
			}
			if chance(r, 0.16) {
				// the same request also carries another session's cookie (first in the Cookie header)
				last := &p.Steps[len(p.Steps)-1]
				switch last.Op {
				case "totp", "vipotp", "pushpoll", "u2fsignresp", "webauthn_finish", "bootstrapotp":
					last.L = append(last.L, "precookie:"+pick(r, vfSessNames))
					if chance(r, 0.6) {
						// ... and whatever cookie came back is used for a certificate
						add(vfStep{Op: "certgen", Sess: last.Sess, User: "@jar", A: pick(r, []string{"ssh", "x509"}), B: pick(r, vfUserKeyNames)})
					}
				}
			}
		case x < 75:
			// certificate request
			typ := pick(r, []string{"", "ssh", "x509", "x509", "x509-kubernetes", "bogus"})
			if typ == "bogus" && !chance(r, 0.2) {
				typ = "x509"
			}
			st := vfStep{Op: "certgen", Sess: s, User: u, A: typ, B: keyFor(typ), D: pick(r, durations)}
			if focus != "C03" && chance(r, 0.6) {
				st.D = pick(r, []string{"", "", "1h", "16h"})
			}
			if chance(r, 0.12) {
				st.User = pick(r, vfHonestUsers) // on behalf of somebody (else)
			} else if u != "" && chance(r, 0.06) {
				st.User = strings.ToUpper(u[:1]) + u[1:] // own name, other spelling
			} else if chance(r, 0.08) {
				st.User = "@jar" // the name the session cookie itself carries
			}
			if chance(r, 0.1) {
				st.N = int64(1 + r.IntN(2))
			}
			switch c := r.IntN(20); {
			case c == 0:
				st.C = "none"
			case c == 1:
				st.C = "basic:" + u + ":cur"
				if u != "" && chance(r, 0.4) {
					// a case variant of the name, in the credentials and (usually) in the URL too
					v := strings.ToUpper(u[:1]) + u[1:]
					st.C = "basic:" + v + ":cur"
					if chance(r, 0.7) {
						st.User = v
					}
				}
			case c == 2:
				st.C = "basic:" + u + ":wrong"
			case c == 3:
				st.C = "sess:" + pick(r, vfSessNames)
			case c == 4:
				st.C = "cert:last:usercert:" + u
			case c == 5:
				st.C = "cert:last:usercert"
			case c >= 6 && c < 6+ipcertShare:
				st.C = "cert:last:ipcert"
				st.User = pick(r, []string{"auto1", "auto1", "auto2", u})
				st.Target = pick(r, vfPeerChoices)
				if chance(r, 0.3) {
					// from the local host, claiming to forward for some other address
					st.Target = "127.0.0.1"
					st.L = append(st.L, "fwd:"+pick(r, vfPeerChoices))
				}
				if chance(r, 0.25) {
					// the request travels on a connection opened long ago: the handshake saw the certificate then
					st.L = append(st.L, "connage:"+pick(r, []string{"10m", "30h", "1100h", "2300h", "7300h"}))
				}
			}
			add(st)
		case x < 78 && p.Cfg.CliTokenLife != "":
			// CLI web-auth token flow: show in the browser session, hand over to a CLI session
			add(vfStep{Op: "clishow", Sess: s})
			if chance(r, 0.8) {
				from := s
				if chance(r, 0.25) {
					from = pick(r, vfSessNames)
				}
				tgt := pick(r, vfSessNames)
				if u != "" && chance(r, 0.3) {
					// the token is redeemed later by another session of the same user, one that holds less (or other) factors
					from = pick(r, vfSessNames)
					add(vfStep{Op: "mintsession", Sess: from, User: u, N: int64(pick(r, []int{AuthTypePassword, AuthTypePassword, AuthTypeU2F | AuthTypePassword, AuthTypeTOTP, AuthTypeWebauthForCLI})), D: pick(r, []string{"", "10m"})})
					sessUser[from] = u
					if chance(r, 0.3) {
						add(vfStep{Op: "advance", D: pick(r, []string{"5m", "20m", "2h"})})
					}
				}
				add(vfStep{Op: "clisend", Sess: from, A: "last:clitoken", Target: tgt})
				if chance(r, 0.5) {
					add(vfStep{Op: "certgen", Sess: tgt, User: "@jar", A: pick(r, []string{"ssh", "x509"}), B: pick(r, vfUserKeyNames), D: pick(r, durations)})
				}
				if chance(r, 0.3) || (focus == "C03" && chance(r, 0.5)) {
					// a CLI session lives as long as its token: it may be older than a day when it asks for a certificate
					add(vfStep{Op: "advance", D: pick(r, []string{"23h", "24h1m", "30h", "50h"})})
					add(vfStep{Op: "certgen", Sess: tgt, User: "@jar", A: pick(r, []string{"ssh", "x509"}), B: pick(r, vfUserKeyNames), D: pick(r, []string{"", "1h", "24h"})})
				}
			}
		case x < 80 && focus == "C01" && chance(r, 0.4):
			// a client certificate and a short-lived second-factor session of the same user; later both are presented together
			cu := pick(r, vfHonestUsers)
			add(vfStep{Op: "mintsession", Sess: "cs", User: cu, N: int64(AuthTypeU2F | AuthTypePassword)})
			add(vfStep{Op: "certgen", Sess: "cs", User: cu, A: "x509", B: pick(r, []string{"user_p256_1", "user_rsa2048_2"}), D: "20h"})
			ts := pick(r, vfSessNames)
			add(vfStep{Op: "mintsession", Sess: ts, User: cu, N: int64(pick(r, []int{AuthTypeU2F, AuthTypeTOTP | AuthTypePassword, AuthTypeSymantecVIP})), D: pick(r, []string{"45s", "10m"})})
			sessUser[ts] = cu
			add(vfStep{Op: "attachcert", Sess: ts, C: "last:usercert:" + cu})
			add(vfStep{Op: "advance", D: pick(r, []string{"61s", "11m", "1h"})})
			add(vfStep{Op: "certgen", Sess: ts, User: cu, A: pick(r, []string{"ssh", "x509"}), B: pick(r, vfUserKeyNames)})
		case x < 80 && focus != "C03":
			// a user obtains a keymaster client certificate; some session then presents it (possibly
			// a session of ANOTHER user: certificate and cookie disagree) on its following requests
			cu := pick(r, vfHonestUsers)
			add(vfStep{Op: "mintsession", Sess: "cs", User: cu, N: int64(AuthTypeU2F | AuthTypePassword)})
			add(vfStep{Op: "certgen", Sess: "cs", User: cu, A: "x509", B: pick(r, []string{"user_p256_1", "user_rsa2048_2"}), D: "8h"})
			if chance(r, 0.8) {
				// attached to some session: preferably one of the same user, or of the account that differs only in case
				at := pick(r, vfSessNames)
				for _, cand := range vfSessNames {
					if strings.EqualFold(sessUser[cand], cu) && chance(r, 0.6) {
						at = cand
					}
				}
				add(vfStep{Op: "attachcert", Sess: at, C: "last:usercert:" + cu})
			}
		case x < 81:
			// an automation certificate minted by an administrator, later used as a credential
			add(vfStep{Op: "mintsession", Sess: "adm", User: pick(r, []string{"root", "autoadmin"}), N: int64(AuthTypeU2F | AuthTypePassword)})
			add(vfStep{Op: "rolecert", Sess: "adm", A: pick(r, []string{"auto1", "auto2"}), L: []string{pick(r, vfNetChoices)}, B: pick(r, []string{"user_p256_3", "user_rsa2048_4"})})
		case x < 84 && focus == "C03":
			// automation certificates with every kind of requested duration
			add(vfStep{Op: "mintsession", Sess: "adm", User: pick(r, []string{"root", "autoadmin"}), N: int64(AuthTypeU2F | AuthTypePassword)})
			add(vfStep{Op: "rolecert", Sess: "adm", A: pick(r, []string{"auto1", "auto2"}), L: []string{pick(r, vfNetChoices)}, B: pick(r, []string{"user_p256_3", "user_rsa2048_4"}),
				D: pick(r, []string{"", "24h", "1080h", "1080h0m1s", "1092h", "1103h59m59s", "1104h", "2000h", "-1h", "9223372036s", "0s", "1ns", "10X"})})
		case x < 87 && focus == "C03" && p.Cfg.AwsRoles:
			// cloud-role certificates: 24 hours, whoever asks and however
			add(vfStep{Op: "awsrole", A: pick(r, []string{"AKIAROLE1", "AKIAROLE2", "AKIAOTHER", "AKIAUSER1", "AKIANOBODY"}), B: pick(r, []string{"user_p256_1", "user_rsa2048_1", "user_ed25519_1", "user_rsa1024_1"}),
				C: pick(r, []string{"", "", "", "forged", "claim:arn:aws:iam::123456789012:role/deployer"}), N: int64(pick(r, []int{0, 0, 0, 1}))})
		case x < 85 && focus == "C03":
			// an automation certificate from the operator's own CA, longer-lived than keymaster's, is refreshed
			add(vfStep{Op: "opcert", User: pick(r, []string{"auto1", "auto2"}), D: pick(r, []string{"2160h", "8760h", "240h"})})
			add(vfStep{Op: "rolerefresh", C: "cert:last:ipcert", Target: pick(r, []string{"10.20.30.40", "10.20.0.1", "203.0.113.9"}), B: "user_p256_2"})
		case x < 90:
			add(vfStep{Op: "advance", D: pick(r, advances)})
		case x < 93:
			add(vfStep{Op: "logout", Sess: s})
			sessUser[s] = ""
			if chance(r, 0.5) {
				add(vfStep{Op: "attachcert", Sess: s})
			}
		case x < 96:
			add(vfStep{Op: pick(r, []string{"stall", "heal"})})
		default:
			add(vfStep{Op: "vipfail", N: int64(r.IntN(2))})
		}
	}
	add(vfStep{Op: "heal"})
	if focus == "C01" && ipcertShare == 6 && chance(r, 0.35) {
		// the 45 days of the automation certificate run out while its holder keeps a connection open
		add(vfStep{Op: "quiesce_daemon"})
		add(vfStep{Op: "advance", D: pick(r, []string{"1000h", "1081h", "1200h"})})
		for k := 0; k < 2; k++ {
			st := vfStep{Op: "certgen", C: "cert:last:ipcert", User: pick(r, []string{"auto1", "auto2"}), Target: pick(r, vfPeerChoices), A: pick(r, []string{"ssh", "x509"}), B: pick(r, vfUserKeyNames),
				L: []string{"connage:" + pick(r, []string{"1m", "130h", "300h"})}}
			add(st)
		}
	}
	if focus == "C03" && p.Cfg.AwsRoles && chance(r, 0.3) {
		// the server runs in a zone with daylight saving time; a cloud-role certificate is requested the day before the
		// clocks go back (2000-10-29 in New York) - and at other times of the year
		p.Cfg.TZ = "America/New_York"
		add(vfStep{Op: "quiesce_daemon"})
		add(vfStep{Op: "advance", D: pick(r, []string{"7236h", "7236h", "2220h", "100h"})})
		add(vfStep{Op: "awsrole", A: "AKIAROLE1", B: "user_p256_1"})
	}
	return p
}

func (w *vfWorld) setupBootstrapOTP(user, dur string) {
	ck := map[string]string{authCookieName: w.setupCookie("root")}
	if dur == "" {
		dur = "1h"
	}
	// the target must exist in the DB
	w.serve(&vfReq{Method: "POST", Path: "/admin/addUser", Cookies: ck, Form: map[string][]string{"username": {user}}})
	r := w.serve(&vfReq{Method: "POST", Path: "/admin/newBoostrapOTP", Cookies: ck, Form: map[string][]string{"username": {user}, "duration": {dur}}})
	if r.Code != 200 {
		w.logf("setup_bootstrap %s failed: %d %s", user, r.Code, vfShort(string(r.Body)))
		return
	}
	otp := ""
	if w.cfg.Email {
		otp = w.mail.lastOTPFor(user)
	} else {
		mm := reBootstrapValue.FindSubmatch(r.Body)
		if mm != nil {
			otp = string(mm[1])
		}
	}
	d, _ := time.ParseDuration(dur)
	if d < time.Minute {
		d = time.Minute
	}
	f := w.model.user(user)
	f.BootstrapOTP, f.BootstrapExp, f.BootstrapUsed = otp, time.Now().Add(d), false
}

func init() {
	nontrivialAuth := func(res *vfResult) bool {
		return res.Probes["cert-issued"] > 0 && res.Probes["cert-refused"] > 0
	}
	for _, id := range []string{"C01", "C02", "C03", "C05"} {
		id := id
		vfProfiles[id] = &vfProfile{
			Gen: func(r *rand.Rand, tier string) *vfPlan { return genAuthPlan(r, tier, id) },
			Nontrivial: nontrivialAuth,
			Rule: "seeded histories of login / second-factor / certificate-request / clock / fault steps over 3 sessions and 3 users under a per-run random configuration; non-trivial = at least one certificate issued AND one refused in the run; distinct = distinct canonical event log",
			Setup: func(w *vfWorld) {
				w.observers = append(w.observers, func(p *vfPrepared, ctx *vfReqCtx, resp *vfResp) {
					if p.intent.CertReq != nil {
						if resp.Code == 200 && vfParseIssued(resp.Body) != nil {
							w.probe("cert-issued")
						} else {
							w.probe("cert-refused")
						}
					}
					if c, ok := resp.Cookies[authCookieName]; ok && c.Value != "" && p.step.Op != "login" {
						w.probe("level-upgrade")
					}
				})
			},
		}
	}
	vfProfiles["C05"].Nontrivial = func(res *vfResult) bool { return res.Probes["level-upgrade"] > 0 }
	vfProfiles["C05"].Rule = "same generator; non-trivial = at least one second-factor step upgraded a session while other sessions were live; distinct = distinct canonical event log"
}

var reBootstrapValue = regexp.MustCompile(`"BootstrapOTPValue":\s*"([^"]+)"`)
