//go:build race

package main

import "runtime"

const vfRaceBuild = true

func vfRaceOff() { runtime.RaceDisable() }
func vfRaceOn()  { runtime.RaceEnable() }
