package main

// C09: a sealed server signs nothing; only the right passphrase, delivered
// over TLS with a verified client certificate, unseals it, exactly once; after
// unsealing the published keys include the keys that sign.

import (
	"testing/synctest"
	"encoding/json"
	"fmt"
	"math/rand/v2"
	"net/url"
	"strings"
	"time"

	"github.com/go-jose/go-jose/v4"
)

// a session cookie exactly as the daemon would mint it, signed with the
// deployment's CA key by the harness ("minted by a second, unsealed instance
// sharing the key"): it WOULD be accepted after unsealing
func vfSiblingCookie(user string, level int) string {
	now := time.Now().Unix()
	claims := map[string]any{"iss": vfIssuer, "sub": user, "aud": []string{vfIssuer}, "exp": now + 16*3600, "nbf": now - 1,
		"iat": now - 1, "token_type": "keymaster_auth", "auth_type": level}
	b, _ := json.Marshal(claims)
	signer, err := jose.NewSigner(jose.SigningKey{Algorithm: jose.RS256, Key: vfKey("ca_rsa").Priv}, (&jose.SignerOptions{}).WithType("JWT"))
	if err != nil {
		panic(err)
	}
	obj, err := signer.Sign(b)
	if err != nil {
		panic(err)
	}
	s, _ := obj.CompactSerialize()
	return s
}

func (w *vfWorld) signedIn(resp *vfResp) string {
	if c, ok := resp.Cookies[authCookieName]; ok && c.Value != "" && vfJWTPayload(c.Value) != nil {
		return "auth-cookie"
	}
	if k := vfContainsSignedMaterial(resp.Body); k != "" {
		return k
	}
	if loc := resp.Header.Get("Location"); loc != "" {
		if k := vfContainsSignedMaterial([]byte(loc)); k != "" {
			return k + "-in-location"
		}
	}
	return ""
}

func init() {
	// A: right|wrong|empty|near ; B: operator|none|foreign|notls|usercert
	vfExtraOps["inject"] = func(w *vfWorld, st vfStep, p *vfPrepared) *vfPrepared {
		pass := map[string]string{"right": vfSealPass, "wrong": "not the passphrase", "empty": "", "near": vfSealPass + " "}[st.A]
		r := &vfReq{Method: "POST", Path: "/admin/inject", Admin: true, Form: url.Values{"ssh_ca_password": {pass}}, Header: map[string]string{}}
		certOK := false
		switch st.B {
		case "", "operator":
			r.Cert = vfCertFixture("adminClient.pem")
			certOK = true
		case "foreign":
			r.Cert = vfCertFixture("foreignCA.pem") // not signed by a trusted CA: the handshake would fail
		case "notls":
			r.NoTLS = true
		case "none":
		}
		if st.N == 1 {
			r.Method = "GET"
			r.Path += "?ssh_ca_password=" + url.QueryEscape(pass)
			r.Form = nil
		}
		p.call = w.prepare(r)
		p.intent.Op = "inject:" + st.A
		p.intent.Inject = &vfInject{Right: st.A == "right", CertOK: certOK}
		return p
	}
	vfExtraOps["readyz"] = func(w *vfWorld, st vfStep, p *vfPrepared) *vfPrepared {
		p.call = w.prepare(&vfReq{Method: "GET", Path: "/readyz", Admin: true, Header: map[string]string{}})
		p.intent.Op = "readyz"
		return p
	}
	// N: index into the route list; A: method; B: credential (cookie|basic|none|cert)
	vfExtraOps["sprobe"] = func(w *vfWorld, st vfStep, p *vfPrepared) *vfPrepared {
		routes := append(append([]string{}, w.svcPatterns...), "/public/x509ca", "/public/sshca", "/certgen/alice", "/certgen/alice?type=x509",
			"/profile/alice", "/u2f/RegisterRequest/alice", "/idp/oauth2/authorize?response_type=code&client_id=clientA&scope=openid&redirect_uri=https%3A%2F%2Fa.example.com%2Fcb")
		route := routes[int(st.N)%len(routes)]
		admin := false
		if st.C == "admin" && len(w.admPatterns) > 0 {
			route = w.admPatterns[int(st.N)%len(w.admPatterns)]
			admin = true
		}
		method := st.A
		if method == "" {
			method = "GET"
		}
		r := &vfReq{Method: method, Path: route, Admin: admin, Header: map[string]string{}}
		switch st.B {
		case "", "cookie":
			r.Cookies = map[string]string{authCookieName: vfSiblingCookie("alice", AuthTypeU2F|AuthTypePassword|AuthTypeTOTP), vipTransactionCookieName: "x"}
		case "basic":
			r.Basic = &[2]string{"alice", w.dirsim.Password["alice"]}
		case "cert":
			r.Cert = vfCertFixture("adminClient.pem")
		}
		if method != "GET" {
			if strings.HasPrefix(route, "/certgen/") {
				r.Multi = map[string]string{"@pubkeyfile": vfKey("user_p256_1").sshPub()}
				if strings.Contains(route, "x509") {
					r.Multi["@pubkeyfile"] = vfKey("user_p256_1").pkixPEM()
				}
			} else {
				r.Form = url.Values{"username": {"alice"}, "password": {w.dirsim.Password["alice"]}, "OTP": {"123456"}, "index": {"1"}, "action": {"Disable"},
					"grant_type": {"authorization_code"}, "code": {vfSiblingCookie("alice", 2)}, "redirect_uri": {"https://a.example.com/cb"}, "client_id": {"clientA"}, "client_secret": {"secretA-0123456789"},
					"identity": {"auto1"}, "requestor_netblock": {"10.0.0.0/8"}, "target_netblock": {"10.0.0.0/8"}, "pubkey": {b64raw(vfKey("user_p256_1").pkixDER())}, "token": {vfSiblingCookie("alice", 2)}, "port": {"1234"}}
			}
		}
		p.call = w.prepare(r)
		if !admin && st.Par != 0 && w.sealed {
			// in a deployment the service port is not listening until main() has received SignerIsReady: a service
			// request racing the unsealing connects only once the listener is up (or is refused)
			p.call.gate = w.serviceListenerGate
		}
		p.intent.Op = "sprobe"
		return p
	}
	// after unsealing: everything that signs must be verifiable under what is published
	vfExtraOps["verify_published"] = func(w *vfWorld, st vfStep, p *vfPrepared) *vfPrepared {
		p.env = func() { w.verifyPublished() }
		return p
	}

	vfProfiles["C09"] = &vfProfile{
		Gen:        genSealPlan,
		Nontrivial: func(res *vfResult) bool { return res.Probes["sealed-probes"] > 0 && res.Probes["inject-attempts"] > 0 },
		Rule:       "the daemon starts sealed (PGP-armoured CA key, optional Ed25519 key); seeded sequences and concurrent groups of: probes of every registered route (service and admin port, GET/POST, sibling-instance cookie / basic-auth / client certificate / none), /readyz, injections with right / wrong / empty / near-miss passphrase with and without a verified client certificate or TLS; after unsealing, issued SSH/X.509 certificates, session cookies and ID tokens are verified against /public/sshca, /public/x509ca and the JWKS. non-trivial = at least one sealed probe and one injection attempt; distinct = distinct (history, interleaving) hash",
		Setup:      sealSetup,
		Final:      sealFinal,
	}
}

type vfInject struct {
	Right  bool
	CertOK bool
}

// serviceListenerGate: the connection succeeds once the emulated main() has started the service listener; the
// task waits at scheduler points (deterministic), the closed channel gives the happens-before edge main() gives.
func (w *vfWorld) serviceListenerGate() bool {
	for i := 0; i < 40; i++ {
		select {
		case <-w.listenerUp:
			return true
		default:
		}
		w.sched.park("gate:service-listener")
	}
	return false
}

func sealSetup(w *vfWorld) {
	// main(): isReady := <-runtimeState.SignerIsReady ; then the service listener starts.  Any further value is a repeated transition.
	w.listenerUp = make(chan struct{})
	go func() {
		<-w.state.SignerIsReady
		w.readySignals.Add(1)
		close(w.listenerUp)
		for range w.state.SignerIsReady {
			w.readySignals.Add(1)
		}
	}()
	w.observers = append(w.observers, func(p *vfPrepared, ctx *vfReqCtx, resp *vfResp) {
		concurrentWithInject := p.step.Par != 0 && w.groupHasRightInject
		if in := p.intent.Inject; in != nil {
			w.probe("inject-attempts")
			ok := resp.Code == 200
			cannotUnseal := w.cfg.BadPrimary || (w.cfg.Ed25519OtherPass && w.cfg.Ed25519CA)
			should := in.Right && in.CertOK && !ctx.req.NoTLS && w.sealed && !cannotUnseal
			if ok && w.cfg.Ed25519OtherPass && w.cfg.Ed25519CA {
				w.violate("C09", "unsealed-by-wrong-pass", "unsealed-by-wrong-pass:second-key", "injection was answered 200 although the passphrase does not open the second (Ed25519) sealed key")
				return
			}
			if ok && w.cfg.BadPrimary {
				w.violate("C09", "unsealed-with-rejected-key", "unsealed-with-rejected-key", "injection was answered 200 although the decrypted primary key is one the loader rejects")
				return
			}
			switch {
			case ok && !in.Right:
				w.violate("C09", "unsealed-by-wrong-pass", "unsealed-by-wrong-pass", "injection with a wrong passphrase was answered 200")
			case ok && (!in.CertOK || ctx.req.NoTLS):
				w.violate("C09", "unseal-without-cert", "unseal-without-cert", "injection without TLS / verified client certificate was answered 200")
			case ok && !w.sealed && !concurrentWithInject:
				w.violate("C09", "double-transition", "double-transition:second-200", "a second injection was answered 200 after the server was unsealed")
			case !ok && should && !concurrentWithInject && !resp.NoHandshake:
				w.violate("C09", "right-pass-refused", fmt.Sprintf("right-pass-refused:%d", resp.Code), "the correct passphrase with a verified client certificate did not unseal")
			}
			if ok {
				w.injectOK++
				if w.injectOK > 1 {
					w.violate("C09", "double-transition", "double-transition", fmt.Sprintf("%d injections were answered 200: more than one unseal transition", w.injectOK))
				}
				if w.sealed {
					w.unsealedNow()
				}
			}
			return
		}
		if p.intent.Op == "readyz" {
			ready := resp.Code == 200
			if ready && w.sealed && !concurrentWithInject {
				w.violate("C09", "ready-while-sealed", "ready-while-sealed", "/readyz answered 200 while sealed")
			}
			if !ready && !w.sealed && !concurrentWithInject {
				w.violate("C09", "not-ready-after-unseal", "not-ready-after-unseal", fmt.Sprintf("/readyz answered %d after unsealing", resp.Code))
			}
			return
		}
		if w.sealed && !concurrentWithInject {
			w.probe("sealed-probes")
			if k := w.signedIn(resp); k != "" {
				w.violate("C09", "signed-while-sealed", "signed-while-sealed:"+k, fmt.Sprintf("%s %s answered %d with %s while the CA key was sealed", ctx.req.Method, ctx.req.Path, resp.Code, k))
			}
		}
		// a JWKS served as if unsealed must already list the signing key
		if strings.HasPrefix(ctx.req.Path, "/idp/oauth2/jwks") && resp.Code == 200 {
			w.checkJWKSHasSigner(resp.Body, "during-unseal")
		}
	})
}

// the model's unseal transition: what main() does once SignerIsReady fires
func (w *vfWorld) unsealedNow() {
	w.sealed = false
	synctest.Wait()
	got := int(w.readySignals.Swap(0))
	w.readySeen += got
	if got != 1 {
		w.violate("C09", "double-transition", fmt.Sprintf("ready-signal-count:%d", got), fmt.Sprintf("SignerIsReady delivered %d values on unsealing", got))
	}
	if err := w.postReady(); err != nil {
		w.violate("C09", "unseal-incomplete", "unseal-incomplete", "post-unseal initialisation failed: "+err.Error())
	}
	w.model.refreshPublished()
}

func (w *vfWorld) checkJWKSHasSigner(body []byte, when string) {
	var set jose.JSONWebKeySet
	if json.Unmarshal(body, &set) != nil {
		return
	}
	want := vfKey("ca_rsa").sshFP()
	for _, k := range set.Keys {
		if k.KeyID == want {
			return
		}
	}
	w.violate("C09", "signer-not-published", "signer-not-published:jwks:"+when, "the JWKS is served but does not contain the key that signs tokens")
}

func (w *vfWorld) verifyPublished() {
	if w.sealed {
		return
	}
	w.probe("post-unseal-verification")
	w.model.refreshPublished()
	// duplicates in the published CA lists betray a repeated transition
	if n := w.model.pubX509n; n > 2 || (n > 1 && !w.cfg.Ed25519CA) {
		w.violate("C09", "double-transition", "double-transition:duplicate-ca", fmt.Sprintf("/public/x509ca lists %d certificates", n))
	}
	r := w.serve(&vfReq{Method: "GET", Path: "/idp/oauth2/jwks"})
	if r.Code != 200 {
		w.violate("C09", "signer-not-published", "signer-not-published:jwks-unavailable", fmt.Sprintf("JWKS answered %d after unsealing", r.Code))
		return
	}
	w.checkJWKSHasSigner(r.Body, "after-unseal")
	// a fresh login cookie must verify under the JWKS
	lr := w.serve(&vfReq{Method: "POST", Path: "/api/v0/login", Form: url.Values{"username": {"alice"}, "password": {w.dirsim.Password["alice"]}}})
	c, ok := lr.Cookies[authCookieName]
	if lr.Code != 200 || !ok {
		w.violate("C09", "not-serving-after-unseal", "not-serving-after-unseal:login", fmt.Sprintf("login after unsealing answered %d", lr.Code))
		return
	}
	var set jose.JSONWebKeySet
	json.Unmarshal(r.Body, &set)
	verified := false
	if obj, err := jose.ParseSigned(c.Value, []jose.SignatureAlgorithm{jose.RS256, jose.ES256, jose.EdDSA, jose.ES384}); err == nil {
		for _, k := range set.Keys {
			if _, err := obj.Verify(k); err == nil {
				verified = true
			}
		}
	}
	if !verified {
		w.violate("C09", "signer-not-published", "signer-not-published:cookie", "a session cookie minted after unsealing does not verify under any JWKS key")
	}
	// certificates (M-issue checks them against /public/sshca and /public/x509ca)
	ck := map[string]string{authCookieName: w.setupCookie("alice")}
	w.model.cookies[ck[authCookieName]] = &vfCookieInfo{Subject: "alice", Proven: AuthTypeU2F, Carried: AuthTypeU2F, AuthAt: time.Now(), Exp: time.Now().Add(time.Hour), Kind: "session"}
	types := []string{"ssh", "x509"}
	if w.cfg.Ed25519CA {
		types = append(types, "ssh-ed25519") // served by the second CA: its key must be published too
	}
	for _, typ := range types {
		keyName := "user_p256_2"
		if typ == "ssh-ed25519" {
			typ, keyName = "ssh", "user_ed25519_2"
		}
		key := vfKey(keyName)
		text := key.sshPub()
		if typ == "x509" {
			text = key.pkixPEM()
		}
		call := w.prepare(&vfReq{Method: "POST", Path: "/certgen/alice?type=" + typ, Cookies: ck, Multi: map[string]string{"@pubkeyfile": text}})
		call.exec()
		resp := call.finish()
		in := &vfIntent{Op: "certgen", CertReq: &vfCertReq{URLUser: "alice", Type: typ, KeyName: keyName, KeyText: text, Method: "POST"}}
		before := len(w.res.Violations)
		w.model.observeCertgen(call.ctx, in, resp)
		for i := before; i < len(w.res.Violations); i++ {
			v := &w.res.Violations[i]
			if v.Class == "unverifiable" {
				// the same event seen through C09's eyes
				w.violate("C09", "signer-not-published", "signer-not-published:"+typ, v.Detail)
			}
		}
		if resp.Code != 200 {
			w.violate("C09", "not-serving-after-unseal", "not-serving-after-unseal:"+typ, fmt.Sprintf("certificate request after unsealing answered %d", resp.Code))
		}
	}
}

func sealFinal(w *vfWorld) {
	if !w.sealed {
		w.verifyPublished()
	}
}

func genSealPlan(r *rand.Rand, tier string) *vfPlan {
	p := &vfPlan{Cfg: vfCfg{Sealed: true, TOTP: true, VIP: true, BootstrapOTP: true, PwBackend: "counting", CliTokenLife: "1h",
		CertBackends: []string{"U2F", "password"}, WebUIBackends: []string{"U2F", "password"}, Ed25519CA: chance(r, 0.5), PublicLogs: chance(r, 0.3)}}
	if chance(r, 0.25) {
		// the operator pre-publishes some keymaster keys (a legal configuration)
		p.Cfg.PubKeys = []string{pick(r, []string{"ca_ed25519", "ca_rsa_alt", "ca_rsa"})}
	}
	if chance(r, 0.12) {
		// the sealed file decrypts, with the right passphrase, to a key the loader rejects: the server must stay sealed
		p.Cfg.BadPrimary = true
		p.Cfg.Ed25519CA = false
	}
	if !p.Cfg.BadPrimary && p.Cfg.Ed25519CA && chance(r, 0.15) {
		p.Cfg.Ed25519OtherPass = true // the operator's passphrase opens only one of the two sealed keys: the server must stay sealed
	}
	add := func(s vfStep) { p.Steps = append(p.Steps, s) }
	probe := func(par int) vfStep {
		return vfStep{Op: "sprobe", N: int64(r.IntN(80)), A: pick(r, []string{"GET", "POST", "POST"}), B: pick(r, []string{"cookie", "cookie", "basic", "none", "cert"}), C: pick(r, []string{"", "", "", "admin"}), Par: par}
	}
	n := 4 + r.IntN(10)
	for i := 0; i < n; i++ {
		switch r.IntN(10) {
		case 0, 1, 2, 3, 4:
			add(probe(0))
		case 5:
			add(vfStep{Op: "readyz"})
		case 6, 7:
			add(vfStep{Op: "inject", A: pick(r, []string{"wrong", "empty", "near", "wrong"}), B: pick(r, []string{"operator", "operator", "none", "notls"}), N: int64(r.IntN(2))})
		case 8:
			add(vfStep{Op: "inject", A: "right", B: pick(r, []string{"none", "notls", "foreign"})})
		case 9:
			add(vfStep{Op: "login", Sess: "s1", User: "alice"})
		}
	}
	// the unsealing itself: alone, or racing other injections and ordinary requests
	switch r.IntN(4) {
	case 0:
		add(vfStep{Op: "inject", A: "right", B: "operator"})
	default:
		g := []vfStep{{Op: "inject", A: "right", B: "operator", Par: 1}}
		for k := 0; k < 1+r.IntN(3); k++ {
			switch r.IntN(5) {
			case 0, 1:
				g = append(g, vfStep{Op: "inject", A: pick(r, []string{"right", "right", "wrong"}), B: "operator", Par: 1})
			case 2:
				g = append(g, vfStep{Op: "readyz", Par: 1})
			case 3:
				g = append(g, vfStep{Op: "sprobe", N: int64(pick(r, []int{80, 81, 82, 83, 5, 6, 7})), A: "GET", B: "none", Par: 1})
			default:
				g = append(g, probe(1))
			}
		}
		r.Shuffle(len(g), func(i, j int) { g[i], g[j] = g[j], g[i] })
		p.Steps = append(p.Steps, g...)
	}
	add(vfStep{Op: "readyz"})
	add(vfStep{Op: "verify_published"})
	if chance(r, 0.5) {
		// the service port is up now: further injections race ordinary requests for real
		g := []vfStep{{Op: "inject", A: pick(r, []string{"right", "right", "wrong"}), B: "operator", Par: 2}}
		for k := 0; k < 1+r.IntN(3); k++ {
			switch r.IntN(4) {
			case 0:
				g = append(g, vfStep{Op: "inject", A: pick(r, []string{"right", "wrong"}), B: "operator", Par: 2})
			case 1:
				g = append(g, vfStep{Op: "sprobe", N: int64(pick(r, []int{80, 81, 82, 83, 5, 6, 7})), A: "GET", B: "none", Par: 2})
			default:
				pr := probe(2)
				g = append(g, pr)
			}
		}
		p.Steps = append(p.Steps, g...)
		add(vfStep{Op: "verify_published"})
	}
	if chance(r, 0.5) {
		add(vfStep{Op: "inject", A: pick(r, []string{"right", "wrong"}), B: "operator"})
		add(vfStep{Op: "verify_published"})
	}
	for i := 0; i < 60; i++ {
		p.Tape = append(p.Tape, r.IntN(8))
	}
	return p
}
