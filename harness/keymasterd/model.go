package main

// Reference model and always-on monitors.  The model holds only facts the
// specification talks about: who has really proven what in which session
// lineage, which artefacts were handed out, what the backends really verified.

import (
	"bytes"
	"crypto/x509"
	"encoding/base64"
	"encoding/json"
	"encoding/pem"
	"fmt"
	"net/url"
	"sort"
	"strings"
	"time"

	"golang.org/x/crypto/ssh"
)

// what the model knows about an auth cookie value minted by the server
type vfCookieInfo struct {
	Subject string
	Proven  int // AuthType* bits really proven in this lineage, for Subject
	Carried int // level bits the server wrote into the cookie (C01 judges on these; C05 judges Carried against Proven)
	AuthAt  time.Time
	Exp     time.Time
	Kind    string // session | cli
	Lineage int
}

type vfArtefact struct {
	ID      int
	Kind    string // cookie | code | idtoken | access | clitoken | usercert | ipcert | vipcookie
	Value   string
	Subject string
	Client  string
	Exp     time.Time
	AuthAt  time.Time
	Cert    *x509.Certificate
	KeyName string
	Nets    []string
	Redirect string
	Challenge string
	Verifier string
	Nonce   string
	Forged  string // "" = authentic; otherwise how it was forged
	NotBefore time.Time
}

type vfUserFacts struct {
	TOTPSecret   string
	TOTPIndex    int64
	TOTPEnabled  bool
	UsedTOTP     map[string]bool // "step/code" accepted by the server
	U2FTokens    map[string]*vfSoftToken // by token name
	BootstrapOTP string
	BootstrapExp time.Time
	BootstrapUsed bool
	lastAccepted  string
	lastTOTPAttempt time.Time
	failsInARow     int
	lastAcceptedStep int64
	PendingSecret string
	RegChallenge  string
}

type vfModel struct {
	w         *vfWorld
	cookies   map[string]*vfCookieInfo
	arts      []*vfArtefact
	users     map[string]*vfUserFacts
	lineages  int
	pubSSH    map[string]bool // published SSH CA keys (wire form)
	pubX509   *x509.CertPool
	pubX509n  int
	u2fChallengeFor map[string]string // challenge(b64) -> user it was issued to (observed from responses)
	u2fChallengeAt  map[string]time.Time
	u2fConsumed     map[string]bool
	pushCookieUser  map[string]string // vip_push_cookie value -> user that started a push under it (ground truth)
	u2fLatestFor    map[string]string
}

func newModel(w *vfWorld) *vfModel {
	m := &vfModel{w: w, cookies: map[string]*vfCookieInfo{}, users: map[string]*vfUserFacts{},
		pubSSH: map[string]bool{}, u2fChallengeFor: map[string]string{}, u2fChallengeAt: map[string]time.Time{},
		u2fConsumed: map[string]bool{}, pushCookieUser: map[string]string{}, u2fLatestFor: map[string]string{}}
	for _, u := range vfUsers {
		m.users[u] = &vfUserFacts{UsedTOTP: map[string]bool{}, U2FTokens: map[string]*vfSoftToken{}}
	}
	return m
}

func (m *vfModel) user(u string) *vfUserFacts {
	f := m.users[u]
	if f == nil {
		f = &vfUserFacts{UsedTOTP: map[string]bool{}, U2FTokens: map[string]*vfSoftToken{}}
		m.users[u] = f
	}
	return f
}

func (m *vfModel) addArt(a *vfArtefact) *vfArtefact {
	a.ID = len(m.arts) + 1
	m.arts = append(m.arts, a)
	return a
}

func (m *vfModel) artByCert(c *x509.Certificate) *vfArtefact {
	if c == nil {
		return nil
	}
	for _, a := range m.arts {
		if a.Cert != nil && bytes.Equal(a.Cert.Raw, c.Raw) {
			return a
		}
	}
	return nil
}

// normalise a login name the way the specification says ("normalised user")
func (m *vfModel) norm(u string) string {
	if !m.w.cfg.DisableNorm {
		return strings.ToLower(u)
	}
	return u
}

// ---- published keys -----------------------------------------------------------

func (m *vfModel) refreshPublished() {
	r := m.w.serve(&vfReq{Method: "GET", Path: "/public/sshca"})
	m.pubSSH = map[string]bool{}
	if r.Code == 200 {
		rest := r.Body
		for len(bytes.TrimSpace(rest)) > 0 {
			k, _, _, rr, err := ssh.ParseAuthorizedKey(rest)
			if err != nil {
				break
			}
			m.pubSSH[string(k.Marshal())] = true
			rest = rr
		}
	}
	r = m.w.serve(&vfReq{Method: "GET", Path: "/public/x509ca"})
	m.pubX509 = x509.NewCertPool()
	m.pubX509n = 0
	if r.Code == 200 {
		rest := r.Body
		for {
			var blk *pem.Block
			blk, rest = pem.Decode(rest)
			if blk == nil {
				break
			}
			if c, err := x509.ParseCertificate(blk.Bytes); err == nil {
				m.pubX509.AddCert(c)
				m.pubX509n++
			}
		}
	}
}

// ---- JWT helpers (decode only; authenticity is judged by the model's own
// bookkeeping of what the server minted) -------------------------------------------

func vfJWTPayload(tok string) map[string]any {
	parts := strings.Split(tok, ".")
	if len(parts) != 3 {
		return nil
	}
	b, err := base64.RawURLEncoding.DecodeString(parts[1])
	if err != nil {
		return nil
	}
	var out map[string]any
	if json.Unmarshal(b, &out) != nil {
		return nil
	}
	return out
}

func jnum(m map[string]any, k string) int64 {
	if f, ok := m[k].(float64); ok {
		return int64(f)
	}
	return 0
}

func jstr(m map[string]any, k string) string {
	s, _ := m[k].(string)
	return s
}

// ---- call-level declarations made by the operation that builds a request -----

// vfIntent is what the issuing operation knows about the request it built:
// factors it really proves and for whom, and why a factor it carries should
// NOT count (replayed, expired, someone else's).
type vfIntent struct {
	Op       string
	Sess     string
	Claims   []vfClaim
	Why      map[int]string // factor -> reason it must not be honoured
	CertReq  *vfCertReq
	LoginUser string // submitted (raw) username of a login attempt
	LoginPw   string
	Role      *vfRoleReq
	Inject    *vfInject
	Token     *vfTokenReq
	Present   *vfPresent
	Adm       *vfAdmReq
	Probe     *vfProbe
	Aws       *vfAwsReq
}

type vfCertReq struct {
	URLUser  string
	Type     string
	KeyName  string
	KeyText  string
	Duration string // "" = not sent
	HasDur   bool
	Method   string
}

var vfFactorNames = map[int]string{
	AuthTypePassword: "password", AuthTypeFederated: "federated", AuthTypeU2F: "U2F",
	AuthTypeSymantecVIP: "SymantecVIP", AuthTypeIPCertificate: "IPCertificate", AuthTypeTOTP: "TOTP",
	AuthTypeOkta2FA: "Okta2FA", AuthTypeBootstrapOTP: "BootstrapOTP", AuthTypeKeymasterX509: "KeymasterX509",
	AuthTypeWebauthForCLI: "WebauthForCLI", AuthTypeFIDO2: "FIDO2",
}

func vfLevelString(l int) string {
	var n []string
	for bit, name := range vfFactorNames {
		if l&bit != 0 {
			n = append(n, name)
		}
	}
	sort.Strings(n)
	return strings.Join(n, "+")
}

// credentialClaims: factors established by the credentials attached to the
// request itself (client certificate, basic-auth), by ground truth.
func (m *vfModel) credentialClaims(ctx *vfReqCtx) []vfClaim {
	var out []vfClaim
	if ctx.req.Cert != nil && !ctx.req.NoTLS {
		if a := m.artByCert(ctx.req.Cert); a != nil && a.Forged == "" && !containsStr(m.w.cfg.DenyKeys, a.KeyName) {
			switch a.Kind {
			case "usercert":
				out = append(out, vfClaim{AuthTypeKeymasterX509, a.Subject})
			case "ipcert":
				out = append(out, vfClaim{AuthTypeKeymasterX509, a.Subject}) // signed by the deployment's key
				if vfPeerInNets(ctx.req.Peer, a.Nets) {
					out = append(out, vfClaim{AuthTypeIPCertificate, a.Subject})
				}
			}
		}
	}
	for _, pc := range ctx.pwChecks {
		if pc.OK {
			out = append(out, vfClaim{AuthTypePassword, pc.User})
		}
	}
	return out
}

// observeLevel is monitor M-level (C05): every auth_cookie the server sets is
// decoded; its subject must be the lineage's subject and its level must be a
// subset of what has really been proven for that subject.
func (m *vfModel) observeLevel(ctx *vfReqCtx, in *vfIntent, resp *vfResp) {
	w := m.w
	var newVal string
	kind := "session"
	if c, ok := resp.Cookies[authCookieName]; ok && c.Value != "" {
		newVal = c.Value
	}
	if newVal == "" && resp.Code == 308 {
		// CLI hand-over: the cookie travels in the redirect to localhost
		if loc, err := url.Parse(resp.Header.Get("Location")); err == nil && strings.HasPrefix(loc.Host, "localhost:") {
			if v := loc.Query().Get("auth_cookie"); v != "" {
				newVal = v
				kind = "cli"
			}
		}
	}
	if newVal == "" && resp.Code >= 400 {
		// a session token handed out in the body or redirect target of a refusal is handed out all the same
		for _, f := range strings.FieldsFunc(string(resp.Body)+" "+resp.Header.Get("Location"), func(c rune) bool {
			return !(c == '.' || c == '-' || c == '_' || (c >= '0' && c <= '9') || (c >= 'a' && c <= 'z') || (c >= 'A' && c <= 'Z'))
		}) {
			if strings.HasPrefix(f, "eyJ") && strings.Count(f, ".") == 2 {
				if pl := vfJWTPayload(f); pl != nil && jstr(pl, "token_type") == "keymaster_auth" && m.cookies[f] == nil && f != ctx.req.Cookies[authCookieName] {
					opn := ""
					if in != nil {
						opn = in.Op
					}
					w.violate("C05", "session-in-refusal", "session-in-refusal:"+opn,
						fmt.Sprintf("the refusal (%d) of %s carries a session token for %q (level %s)", resp.Code, ctx.req.Path, jstr(pl, "sub"), vfLevelString(int(jnum(pl, "auth_type")))))
					break
				}
			}
		}
	}
	if newVal == "" {
		return
	}
	pl := vfJWTPayload(newVal)
	if pl == nil {
		w.violate("C05", "cookie-undecodable", "cookie-undecodable", "server set an auth cookie that is not a JWT")
		return
	}
	sub := jstr(pl, "sub")
	level := int(jnum(pl, "auth_type"))
	exp := time.Unix(jnum(pl, "exp"), 0)
	iat := time.Unix(jnum(pl, "iat"), 0)
	inVal := ctx.req.Cookies[authCookieName]
	inInfo := m.cookies[inVal]
	// several auth cookies in one request: the one re-issued is the one of the new cookie's subject
	for _, pc := range ctx.req.PreCookies {
		if pc[0] != authCookieName {
			continue
		}
		if ci := m.cookies[pc[1]]; ci != nil && ci.Subject == sub && (inInfo == nil || inInfo.Subject != sub) {
			inVal, inInfo = pc[1], ci
		}
	}
	claims := append([]vfClaim{}, ctx.truth...)
	claims = append(claims, m.credentialClaims(ctx)...)
	if in != nil {
		claims = append(claims, in.Claims...)
	}
	isLogin := strings.HasPrefix(ctx.req.Path, "/api/v0/login")
	info := &vfCookieInfo{Subject: sub, Exp: exp, AuthAt: iat, Kind: kind, Carried: level}
	if strings.HasPrefix(ctx.req.Path, "/auth/oauth2/callback") {
		// a new session whose only factor is the provider's word - and only for the user the provider named
		m.lineages++
		info.Lineage = m.lineages
		allowed := 0
		vouched := ""
		for _, c := range claims {
			if c.Factor == AuthTypeFederated {
				vouched = c.User
				if m.norm(c.User) == sub {
					allowed = AuthTypeFederated
				}
			}
		}
		if extra := level &^ allowed; extra != 0 {
			cls := "level-not-proven"
			if vouched != "" && m.norm(vouched) != sub {
				cls = "level-for-other-user"
			}
			w.violate("C05", cls, cls+":federated:"+vfLevelString(extra),
				fmt.Sprintf("federated login produced a session for %q with level %s; the provider vouched for %q", sub, vfLevelString(level), vouched))
		}
		info.Proven = level & allowed
		m.cookies[newVal] = info
		w.probe("federated-session-created")
		return
	}
	if isLogin {
		m.lineages++
		info.Lineage = m.lineages
		want := ""
		if in != nil {
			want = m.norm(in.LoginUser)
		}
		if in != nil && sub != want {
			w.violate("C05", "login-wrong-subject", "login-wrong-subject",
				fmt.Sprintf("login as %q produced a session for %q", in.LoginUser, sub))
		}
		// whether the password was rightly accepted is C07's question; here only the level
		allowed := AuthTypePassword
		if extra := level &^ allowed; extra != 0 {
			w.violate("C05", "level-not-proven", "level-not-proven:login:"+vfLevelString(extra),
				fmt.Sprintf("login of %s produced level %s", sub, vfLevelString(level)))
		}
		info.Proven = level & allowed
		m.cookies[newVal] = info
		return
	}
	if kind == "cli" {
		// a new lineage whose only factor is the CLI token
		m.lineages++
		info.Lineage = m.lineages
		allowed := 0
		for _, c := range claims {
			if c.Factor == AuthTypeWebauthForCLI && c.User == sub {
				allowed |= AuthTypeWebauthForCLI
			}
		}
		if extra := level &^ allowed; extra != 0 {
			cls := "level-not-proven"
			if in != nil && in.Why[AuthTypeWebauthForCLI] != "" {
				cls = in.Why[AuthTypeWebauthForCLI]
			}
			w.violate("C05", cls, cls+":cli:"+vfLevelString(extra),
				fmt.Sprintf("CLI session for %s with level %s not justified (claims %v)", sub, vfLevelString(level), claims))
		}
		if inInfo != nil && inInfo.Subject != sub {
			w.violate("C05", "level-for-other-user", "level-for-other-user:cli",
				fmt.Sprintf("browser session of %s produced a CLI session for %s", inInfo.Subject, sub))
		}
		info.Proven = level & allowed
		m.cookies[newVal] = info
		return
	}
	// upgrade of an existing lineage
	if inInfo == nil {
		// the server re-issued a cookie it was not given by this model: either a
		// forged one was accepted (C04) or bookkeeping is missing
		if inVal != "" {
			w.violate("C04", "unknown-cookie-upgraded", "unknown-cookie-upgraded",
				"server upgraded an auth cookie it never issued: "+vfShort(inVal))
		}
		info.Proven = 0
		m.cookies[newVal] = info
		return
	}
	info.Lineage, info.AuthAt, info.Exp = inInfo.Lineage, inInfo.AuthAt, inInfo.Exp
	if sub != inInfo.Subject {
		w.violate("C05", "subject-changed", "subject-changed",
			fmt.Sprintf("session of %s re-issued for %s", inInfo.Subject, sub))
	}
	allowed := inInfo.Proven
	for _, c := range claims {
		if c.User == inInfo.Subject {
			allowed |= c.Factor
		}
	}
	if extra := level &^ allowed; extra != 0 {
		for bit, name := range vfFactorNames {
			if extra&bit == 0 {
				continue
			}
			cls := "level-not-proven"
			other := ""
			for _, c := range claims {
				if c.Factor == bit && c.User != inInfo.Subject {
					cls, other = "level-for-other-user", c.User
				}
			}
			if in != nil && in.Why[bit] != "" && cls == "level-not-proven" {
				cls = in.Why[bit]
			}
			op := ""
			if in != nil {
				op = in.Op
			}
			w.violate("C05", cls, fmt.Sprintf("%s:%s:%s", cls, name, op),
				fmt.Sprintf("session of %s gained %s via %s; proven before=%s; truth=%v other=%s",
					inInfo.Subject, name, ctx.req.Path, vfLevelString(inInfo.Proven), claims, other))
		}
	}
	info.Proven = level & allowed
	if !exp.Equal(inInfo.Exp) && exp.After(inInfo.Exp) {
		w.violate("C05", "lifetime-extended", "lifetime-extended",
			fmt.Sprintf("upgrade extended the session of %s from %v to %v", sub, inInfo.Exp.Unix(), exp.Unix()))
	}
	m.cookies[newVal] = info
}

func vfShort(s string) string {
	if len(s) > 24 {
		return s[:10] + ".." + s[len(s)-10:]
	}
	return s
}

func vfPeerInNets(peer string, nets []string) bool {
	if peer == "" {
		peer = "192.0.2.10"
	}
	return vfIPInNets(peer, nets)
}
