package main

// The simulated world: one real RuntimeState built by the real
// loadVerifyConfigFile from a generated configuration, the real route tables
// (generated from main()), real SQLite files behind the vfsql driver, and
// simulated edges (directory, VIP, mail, transport).

import (
	"sync/atomic"
	"bytes"
	"crypto/tls"
	"crypto/x509"
	"database/sql"
	"fmt"
	"io"
	"mime/multipart"
	"net/http"
	"net/http/httptest"
	"net/url"
	"os"
	"path/filepath"
	"sort"
	"strings"
	"testing"
	"testing/synctest"
	"time"

	"github.com/Cloud-Foundations/keymaster/eventmon/eventrecorder"
	"github.com/Cloud-Foundations/keymaster/keymasterd/eventnotifier"
	"github.com/Cloud-Foundations/keymaster/lib/instrumentedwriter"
	"github.com/Cloud-Foundations/keymaster/lib/vip"
	vfhook "github.com/Cloud-Foundations/keymaster/zz_vfhook"
)

const (
	vfHost      = "keymaster.sim"
	vfAdminHost = "keymaster.sim:6920"
	vfIssuer    = "https://keymaster.sim"
	vfSealPass  = "correct horse battery staple"
)

// ---- configuration knobs (re-drawn per run: "swarm") ------------------------

type vfCfg struct {
	CertBackends  []string    `json:"cert_backends"`
	WebUIBackends []string    `json:"webui_backends"`
	TOTP          bool        `json:"totp,omitempty"`
	VIP           bool        `json:"vip,omitempty"`
	BootstrapOTP  bool        `json:"bootstrap,omitempty"`
	SelfService   bool        `json:"self_service,omitempty"`
	Ed25519CA     bool        `json:"ed25519_ca,omitempty"`
	Kerberos      string      `json:"kerberos,omitempty"`
	DisableNorm   bool        `json:"disable_norm,omitempty"`
	SSHExt        [][2]string `json:"ssh_ext,omitempty"`
	CliTokenLife  string      `json:"cli_token_life,omitempty"`
	Burst         int         `json:"burst,omitempty"`
	Rate          float64     `json:"rate,omitempty"`
	PwBackend     string      `json:"pw_backend,omitempty"` // counting | htpasswd | ldap
	LDAPServers   int         `json:"ldap_servers,omitempty"`
	NoPwCache     bool        `json:"no_pw_cache,omitempty"`
	Sealed        bool        `json:"sealed,omitempty"`
	Ed25519OtherPass bool     `json:"ed25519_other_pass,omitempty"` // the sealed Ed25519 CA file needs another passphrase than the primary
	NoHostIdentity bool       `json:"no_host_identity,omitempty"` // host_identity is not configured: the identity is derived from the machine's host name (which is vfHost here)
	BadPrimary    bool        `json:"bad_primary,omitempty"` // sealed primary CA file decrypts (right passphrase) to a key the loader must reject (an Ed25519 key)
	GroupsLDAP    bool        `json:"groups_ldap,omitempty"` // userinfo_sources.ldap configured (simulated directory)
	GroupPrepend  string      `json:"group_prepend,omitempty"` // userinfo_sources.ldap.group_prepend
	PublicLogs    bool        `json:"public_logs,omitempty"`
	SyncDelay     string      `json:"sync_delay,omitempty"`
	SyncInterval  string      `json:"sync_interval,omitempty"`
	DenyKeys      []string    `json:"deny_keys,omitempty"` // fixture key names whose fingerprints are deny-listed
	PubKeys       []string    `json:"pub_keys,omitempty"`  // fixture key names pre-published in keymaster_public_keys_filename
	Email         bool        `json:"email,omitempty"`
	CAKey         string      `json:"ca_key,omitempty"` // "" = RSA primary CA key, "ecdsa" = ECDSA P-256 primary CA key (supported experimentally)
	TZ            string      `json:"tz,omitempty"` // the server's local time zone ("" = UTC)
	AwsRoles      bool        `json:"aws_roles,omitempty"` // cloud-role certificates for workloads of one allowed AWS account (simulated STS)
	Federated     bool        `json:"federated,omitempty"` // oauth2 login through a (simulated) identity provider
}

// fixed universe of principals
var vfUsers = []string{"alice", "bob", "mallory", "root", "gadmin", "autoadmin"}

const (
	vfAdminGroup      = "kmadmins"
	vfAutomationGroup = "robots"
)

func vfInitialPassword(u string) string { return u + "-pw-1" }

// ---- result / evidence ------------------------------------------------------

type vfViolation struct {
	Prop   string `json:"prop"`
	Class  string `json:"class"`
	Key    string `json:"key"` // class + discriminating parameters (known-findings match on this)
	Detail string `json:"detail"`
	Step   int    `json:"step"`
}

type vfResult struct {
	Seed       int64            `json:"seed"`
	Prop       string           `json:"prop"`
	Steps      int              `json:"steps"`
	Requests   int              `json:"requests"`
	SimSeconds float64          `json:"sim_seconds"`
	Faults     map[string]int   `json:"faults,omitempty"`
	Probes     map[string]int   `json:"probes,omitempty"`
	Cells      []string         `json:"cells,omitempty"` // distinct coverage cells reached
	HistHash   string           `json:"hist_hash"`
	SchedHash  string           `json:"sched_hash,omitempty"`
	Multi      int              `json:"multi_decisions,omitempty"`
	Nontrivial bool             `json:"nontrivial"`
	Violations []vfViolation    `json:"violations,omitempty"`
	Log        []string         `json:"log,omitempty"`
	Plan       *vfPlan          `json:"plan,omitempty"`
	Plans      map[string]*vfPlan `json:"plans,omitempty"` // per violation key: a (minimised) plan reproducing it
	Infra      string           `json:"infra,omitempty"` // infrastructure trouble (exit 2), never a violation
	ShrunkFrom int              `json:"shrunk_from,omitempty"`
	ShrunkRuns int              `json:"shrunk_runs,omitempty"`
	Panics     int              `json:"panics,omitempty"`
	LeakedBubble bool           `json:"leaked_bubble,omitempty"`
	SyncCalls  [][2]int         `json:"sync_calls,omitempty"` // driver calls (cache, primary) per fault-free sync, for enumeration
	Variant    string           `json:"variant,omitempty"`
	Rule       string           `json:"rule,omitempty"`
	Conc       *concOutcome     `json:"conc,omitempty"`
}

// ---- world ------------------------------------------------------------------

type vfWorld struct {
	t     *testing.T
	prop  string
	cfg   vfCfg
	dir   string
	state *RuntimeState
	svc   http.Handler
	adm   http.Handler
	svcPatterns []string
	admPatterns []string

	sched   *vfSched
	primary *vfDB
	cache   *vfDB
	dbKey   string

	dirsim *simDirectory
	vipsim *simVIP
	mail   *simMail
	pw     *countingPw

	model *vfModel
	res   *vfResult
	start time.Time
	stepIdx int
	sealed  bool
	readySeen int

	cur *vfReqCtx // request being served (one at a time unless in a concurrent group)

	pwCalls []time.Time // instants at which the password backend was invoked

	sessions    map[string]*vfSession
	tokens      map[string]*vfSoftToken
	oldPassword map[string]string
	challenges  []string
	stalled     bool
	observers   []func(p *vfPrepared, ctx *vfReqCtx, resp *vfResp)
	stopOnViolation bool
	loginAttempts   []time.Time

	subs          map[int]*vfSubscriber
	detectBlocked bool
	aborted       bool
	rec           *eventrecorder.EventRecorder
	recFile       string
	recGen        int
	recLive       []vfRecModelEvent
	recSaved      []vfRecModelEvent
	recDirty      bool
	recBlockOn    bool      // the recorder's disk refuses to create the temporary file of a save
	recBlockFrom  time.Time
	recSavedOnce  bool
	recLastEvent  time.Time
	expiredCookie string
	groupChanged  map[string]time.Time
	groupSrvDownSince time.Time
	groupSrvUpSince   time.Time
	waChallenges  []string
	pendingDBFault  int
	armedForStep    bool
	faultedThisStep bool
	groupHasRightInject bool
	injectOK      int
	tampered      bool
	recInfo       map[string]*vfRecInfo
	lastRecord    map[string]string
	replayed      map[string]bool
	conc          *concOutcome
	attempts      []vfAttempt
	totpAcceptAt  map[string]time.Time
	lockouts      map[int]time.Duration
	raw           map[string]*sql.DB
	offlineDigest string
	cacheSynced   map[string]bool
	agentSim      *vfAgent
	okta          *simOkta
	clientLog     *bytes.Buffer
	readsDown     bool
	readsDownDigest string
	returnedCerts map[string]int
	lockoutPause  time.Duration
	lockoutReplay string
	idp           *simIdP
	pendingMods   []string // request modifiers of the step being prepared (precookie:, fwd:, peer:)
	listenerUp    chan struct{} // closed when the emulated main() received SignerIsReady (the service listener starts then)
	readySignals  atomic.Int32
	latePublishes atomic.Int32
	stdinFile     *os.File
}

var vfRunCounter int

func vfFixture(name string) string {
	return filepath.Join(os.Getenv("VF_FIXTURES"), name)
}

func vfRepo() string {
	if r := os.Getenv("VF_REPO"); r != "" {
		return r
	}
	return "/repo"
}

func yamlList(l []string) string {
	var q []string
	for _, s := range l {
		q = append(q, fmt.Sprintf("%q", s))
	}
	return "[" + strings.Join(q, ", ") + "]"
}

func (w *vfWorld) writeConfig() (string, error) {
	c := w.cfg
	var b strings.Builder
	b.WriteString("base:\n")
	fmt.Fprintf(&b, "  http_address: \":443\"\n  admin_address: \":6920\"\n")
	if !c.NoHostIdentity {
		fmt.Fprintf(&b, "  host_identity: %q\n", vfHost)
	}
	fmt.Fprintf(&b, "  tls_cert_filename: %q\n  tls_key_filename: %q\n", vfFixture("server.pem"), vfFixture("server.key"))
	ca := "ca_rsa.pem"
	if c.CAKey == "ecdsa" && !c.Sealed {
		ca = "ca_ecdsa.pem"
	}
	if c.Sealed {
		ca = "ca_rsa.asc"
		if c.BadPrimary {
			ca = "ca_ed25519.asc"
		}
	}
	fmt.Fprintf(&b, "  ssh_ca_filename: %q\n", vfFixture(ca))
	if c.Ed25519CA {
		ed := "ca_ed25519.pem"
		if c.Sealed {
			ed = "ca_ed25519.asc"
			if c.Ed25519OtherPass {
				ed = "ca_ed25519_otherpass.asc"
			}
		}
		fmt.Fprintf(&b, "  ed25519_ca_keyfilename: %q\n", vfFixture(ed))
	}
	fmt.Fprintf(&b, "  client_ca_filename: %q\n", vfFixture("adminCA.pem"))
	fmt.Fprintf(&b, "  data_directory: %q\n", w.dir)
	fmt.Fprintf(&b, "  shared_data_directory: %q\n", filepath.Join(vfRepo(), "cmd", "keymasterd"))
	if c.Kerberos != "" {
		fmt.Fprintf(&b, "  kerberos_realm: %q\n", c.Kerberos)
	}
	fmt.Fprintf(&b, "  allowed_auth_backends_for_certs: %s\n", yamlList(c.CertBackends))
	fmt.Fprintf(&b, "  allowed_auth_backends_for_webui: %s\n", yamlList(c.WebUIBackends))
	fmt.Fprintf(&b, "  admin_users: [\"root\"]\n  admin_groups: [%q]\n", c.GroupPrepend+vfAdminGroup)
	fmt.Fprintf(&b, "  automation_users: [\"auto1\", \"auto2\"]\n  automation_user_groups: [%q]\n  automation_admins: [\"autoadmin\"]\n", c.GroupPrepend+vfAutomationGroup)
	fmt.Fprintf(&b, "  public_logs: %v\n", c.PublicLogs)
	fmt.Fprintf(&b, "  disable_username_normalization: %v\n", c.DisableNorm)
	fmt.Fprintf(&b, "  enable_local_totp: %v\n  enable_bootstrapotp: %v\n  allow_self_service_bootstrap_otp: %v\n", c.TOTP, c.BootstrapOTP, c.SelfService)
	if c.CliTokenLife != "" {
		fmt.Fprintf(&b, "  webauth_token_for_cli_lifetime: %s\n", c.CliTokenLife)
	}
	if c.Burst > 0 {
		fmt.Fprintf(&b, "  password_attempt_global_burst_limit: %d\n", c.Burst)
	}
	if c.Rate > 0 {
		fmt.Fprintf(&b, "  password_attempt_global_rate_limit: %v\n", c.Rate)
	}
	// a password file always exists so that the loader accepts the config;
	// the harness may replace the checker afterwards (counting backend)
	ht := filepath.Join(w.dir, "passfile.htpass")
	if err := os.WriteFile(ht, []byte(vfHtpasswdContent()), 0o644); err != nil {
		return "", err
	}
	fmt.Fprintf(&b, "  htpasswd_filename: %q\n", ht)
	if c.PwBackend == "command" {
		// the external helper program backend: a real child process per password check
		fmt.Fprintf(&b, "  external_auth_command: %q\n", vfFixture("authhelper.sh"))
	}
	if len(c.PubKeys) > 0 {
		var lines strings.Builder
		for _, k := range c.PubKeys {
			lines.WriteString(vfKey(k).sshPub())
		}
		pk := filepath.Join(w.dir, "keymaster_public_keys")
		if err := os.WriteFile(pk, []byte(lines.String()), 0o644); err != nil {
			return "", err
		}
		fmt.Fprintf(&b, "  keymaster_public_keys_filename: %q\n", pk)
	}
	if len(c.SSHExt) > 0 {
		b.WriteString("  ssh_cert_config:\n    extensions:\n")
		for _, e := range c.SSHExt {
			fmt.Fprintf(&b, "      - key: %q\n        value: %q\n", e[0], e[1])
		}
	}
	if c.PwBackend == "ldap" {
		var urls []string
		for i := 0; i < c.LDAPServers; i++ {
			urls = append(urls, fmt.Sprintf("ldaps://ldap%d.sim", i+1))
		}
		fmt.Fprintf(&b, "ldap:\n  bind_pattern: \"uid=%%s,ou=people,dc=sim\"\n  ldap_target_urls: %q\n  disable_password_cache: %v\n", strings.Join(urls, ","), c.NoPwCache)
	}
	if c.AwsRoles {
		b.WriteString("aws_certs:\n  allowed_accounts: [\"123456789012\"]\n")
	}
	if c.Federated {
		b.WriteString("oauth2:\n  enabled: true\n  client_id: \"km-client\"\n  client_secret: \"km-client-secret\"\n  token_url: \"https://idp.sim/token\"\n  auth_url: \"https://idp.sim/auth\"\n  userinfo_url: \"https://idp.sim/userinfo\"\n  scopes: \"openid email\"\n")
	}
	if c.PwBackend == "okta" {
		b.WriteString("okta:\n  domain: \"sim\"\n  enable_2fa: true\n")
	}
	if c.GroupsLDAP {
		if c.GroupPrepend != "" {
			fmt.Fprintf(&b, "userinfo_sources:\n  ldap:\n    group_prepend: %q\n    bind_username: \"cn=km\"\n    bind_password: \"x\"\n    ldap_target_urls: \"ldaps://dir1.sim\"\n    user_search_base_dns: [\"ou=people,dc=sim\"]\n    user_search_filter: \"(uid=%%s)\"\n    group_search_base_dns: [\"ou=groups,dc=sim\"]\n    group_search_filter: \"(member=%%s)\"\n", c.GroupPrepend)
		} else {
		b.WriteString("userinfo_sources:\n  ldap:\n    bind_username: \"cn=km\"\n    bind_password: \"x\"\n    ldap_target_urls: \"ldaps://dir1.sim\"\n    user_search_base_dns: [\"ou=people,dc=sim\"]\n    user_search_filter: \"(uid=%s)\"\n    group_search_base_dns: [\"ou=groups,dc=sim\"]\n    group_search_filter: \"(member=%s)\"\n")
		}
	}
	if c.VIP {
		fmt.Fprintf(&b, "symantecvip:\n  enabled: true\n  cert_file: %q\n  key_file: %q\n", vfFixture("server.pem"), vfFixture("server.key"))
	}
	if c.Email {
		b.WriteString("email:\n  domain: \"mail.sim\"\n  smtpserver: \"smtp.sim:25\"\n")
	}
	b.WriteString("openid_connect_idp:\n  default_email_domain: \"mail.sim\"\n  clients:\n")
	for _, cl := range vfOIDCClients {
		fmt.Fprintf(&b, "    - client_id: %q\n      client_secret: %q\n      allow_client_chose_audiences: %v\n      allowed_redirect_domains: %s\n",
			cl.ID, cl.Secret, cl.ChooseAud, yamlList(cl.Domains))
	}
	if len(c.DenyKeys) > 0 {
		var fps []string
		for _, k := range c.DenyKeys {
			fps = append(fps, vfKey(k).sshFP())
		}
		fmt.Fprintf(&b, "denytrustdata:\n  key_deny_list_ssh_sha256: %s\n", yamlList(fps))
	}
	sd, si := c.SyncDelay, c.SyncInterval
	if sd == "" {
		sd = "3s"
	}
	if si == "" {
		si = "5m"
	}
	fmt.Fprintf(&b, "profilestorage:\n  sync_delay: %s\n  sync_interval: %s\n", sd, si)
	p := filepath.Join(w.dir, "config.yml")
	return p, os.WriteFile(p, []byte(b.String()), 0o644)
}

type vfOIDCClient struct {
	ID, Secret string
	ChooseAud  bool
	Domains    []string
}

var vfOIDCClients = []vfOIDCClient{
	{"clientA", "secretA-0123456789", false, []string{"a.example.com"}},
	{"clientB", "", true, []string{"b.example.com"}}, // secret-less: PKCE
	{"clientC", "secretC-9876543210", false, []string{"c.example.org"}},
	{"clientD", "", false, []string{"d.example.net"}}, // a second secret-less client
}

// vfNop logger: takes no lock, so logging adds neither nondeterminism nor
// happens-before edges.
type vfNopLogger struct{}

func (vfNopLogger) Debug(level uint8, v ...interface{})                 {}
func (vfNopLogger) Debugf(level uint8, format string, v ...interface{}) {}
func (vfNopLogger) Debugln(level uint8, v ...interface{})               {}
func (vfNopLogger) Fatal(v ...interface{})                              { panic(fmt.Sprint(v...)) }
func (vfNopLogger) Fatalf(format string, v ...interface{})              { panic(fmt.Sprintf(format, v...)) }
func (vfNopLogger) Fatalln(v ...interface{})                            { panic(fmt.Sprint(v...)) }
func (vfNopLogger) Panic(v ...interface{})                              { panic(fmt.Sprint(v...)) }
func (vfNopLogger) Panicf(format string, v ...interface{})              { panic(fmt.Sprintf(format, v...)) }
func (vfNopLogger) Panicln(v ...interface{})                            { panic(fmt.Sprint(v...)) }
func (vfNopLogger) Print(v ...interface{})                              {}
func (vfNopLogger) Printf(format string, v ...interface{})              {}
func (vfNopLogger) Println(v ...interface{})                            {}
func (vfNopLogger) WriteHtml(w io.Writer)                               {}

// development aid (VF_LOG=1): product log lines on stderr
type vfStderrLogger struct{ vfNopLogger }

func (vfStderrLogger) Printf(format string, v ...interface{}) { fmt.Fprintf(os.Stderr, "LOG "+format+"\n", v...) }
func (vfStderrLogger) Println(v ...interface{})               { fmt.Fprintln(os.Stderr, append([]interface{}{"LOG"}, v...)...) }
func (vfStderrLogger) Debugf(level uint8, format string, v ...interface{}) {
	if level <= 1 {
		fmt.Fprintf(os.Stderr, "DBG "+format+"\n", v...)
	}
}

type vfNopHTTPLogger struct{}

func (vfNopHTTPLogger) Log(record instrumentedwriter.LogRecord) {}

// build constructs the world inside the current synctest bubble.
func (w *vfWorld) build() error {
	vfRunCounter++
	base := os.Getenv("VF_RUNDIR")
	if base == "" {
		base = os.TempDir()
	}
	w.dir = filepath.Join(base, fmt.Sprintf("run-%d-%d", os.Getpid(), vfRunCounter))
	if err := os.MkdirAll(w.dir, 0o755); err != nil {
		return err
	}
	w.start = time.Now()
	w.res.Faults = map[string]int{}
	w.res.Probes = map[string]int{}
	w.sched = newSched(w.res.Plan.Tape)

	// simulated edges
	w.dirsim = newSimDirectory(w)
	w.vipsim = newSimVIP(w)
	w.mail = &simMail{w: w}
	vfhook.LDAPDialFn = w.dirsim.dial
	vfhook.GetLDAPUserGroups = w.dirsim.getGroups
	vfhook.GetLDAPUserAttributes = w.dirsim.getAttributes
	vfhook.EventPublishCert = nil
	vfhook.VipPostBytes = w.vipsim.soap
	// everything that goes through http.DefaultClient (the Okta authenticator does) meets the simulated service
	w.okta = newSimOkta(w)
	w.idp = newSimIdP(w)
	http.DefaultClient.Transport = w.okta

	// globals of package main
	logger = vfNopLogger{}
	if os.Getenv("VF_LOG") != "" {
		logger = vfStderrLogger{}
	}
	eventNotifier = eventnotifier.New(vfNopLogger{})
	u2fTrustedFacets = nil
	vfResetGlobals()

	// the daemon's local time zone (calendar arithmetic on local times differs from duration arithmetic across DST switches)
	wantLoc := time.UTC
	if w.cfg.TZ != "" {
		if loc, err := time.LoadLocation(w.cfg.TZ); err == nil {
			wantLoc = loc
		}
	}
	if time.Local.String() != wantLoc.String() {
		time.Local = wantLoc
	}
	w.writeHelperCtl("ok")
	cfgFile, err := w.writeConfig()
	if err != nil {
		return err
	}
	state, err := loadVerifyConfigFile(cfgFile, logger)
	if err != nil {
		return fmt.Errorf("loadVerifyConfigFile: %w", err)
	}
	w.state = state
	if w.cfg.NoHostIdentity {
		// the loader asked the operating system for the host name: this machine is called vfHost
		state.HostIdentity = vfHost
	}
	synctest.Wait()

	// put both databases behind the vfsql driver.  The goroutine started by
	// initDB is told to stop (it has not touched the DB yet: it sleeps for
	// sync_delay first) and is restarted after the swap.
	close(state.dbDone)
	synctest.Wait()
	state.db.Close()
	state.cacheDB.Close()
	w.dbKey = fmt.Sprintf("%d-%d", os.Getpid(), vfRunCounter)
	w.primary = &vfDB{name: "primary"}
	w.cache = &vfDB{name: "cache"}
	vfRegisterDB(w.dbKey+"-p", w.primary)
	vfRegisterDB(w.dbKey+"-c", w.cache)
	if err := w.openDBs(state); err != nil {
		return err
	}
	state.dbDone = make(chan struct{})
	go state.BackgroundDBCopy(state.Config.ProfileStorage.SyncDelay, state.dbDone, vfNopLogger{})

	// password backend
	switch w.cfg.PwBackend {
	case "", "counting":
		w.pw = &countingPw{w: w}
		state.passwordChecker = w.pw
	case "htpasswd", "ldap", "okta", "command":
		// the loader already installed the real authenticator
	}
	if w.cfg.Email {
		state.emailManager = w.mail
	}
	if w.cfg.VIP && state.Config.SymantecVIP.Client == nil {
		state.Config.SymantecVIP.Client = &vip.Client{}
	}
	w.sealed = w.cfg.Sealed
	if !w.sealed {
		select {
		case ok := <-state.SignerIsReady:
			if !ok {
				return fmt.Errorf("signer not ready")
			}
			w.readySeen++
		default:
			return fmt.Errorf("unsealed config but SignerIsReady empty")
		}
		if err := w.postReady(); err != nil {
			return err
		}
	}
	dash := newAdminDashboard(vfNopLogger{}, w.cfg.PublicLogs)
	svcMux, admMux := vfBuildMuxes(state, dash)
	w.svcPatterns, w.admPatterns = vfRoutePatterns(state)
	w.svc = instrumentedwriter.NewLoggingHandler(svcMux, vfNopHTTPLogger{})
	w.adm = instrumentedwriter.NewLoggingHandler(NewLogFilterHandler(admMux, w.cfg.PublicLogs, state), vfNopHTTPLogger{})
	w.model = newModel(w)
	synctest.Wait()
	return nil
}

func (w *vfWorld) openDBs(state *RuntimeState) error {
	var err error
	pf := filepath.Join(w.dir, profileDBFilename)
	cf := filepath.Join(w.dir, cachedDBFilename)
	state.db, err = sql.Open("vfsqlite3", w.dbKey+"-p|file:"+pf+"?_busy_timeout=0&_journal_mode=WAL")
	if err != nil {
		return err
	}
	state.db.SetMaxIdleConns(0)
	state.cacheDB, err = sql.Open("vfsqlite3", w.dbKey+"-c|file:"+cf+"?_busy_timeout=0&_journal_mode=WAL")
	if err != nil {
		return err
	}
	if err := state.db.Ping(); err != nil {
		return err
	}
	return state.cacheDB.Ping()
}

// postReady mirrors what main() does once the signer is ready (that code is
// inline in main() and cannot be called): password-cache storage hookup and
// client CA pool completion.  Listed as a stub in evidence.
// control file of the password helper program (fixtures/authhelper.sh): its mode and the accounts it knows
func (w *vfWorld) writeHelperCtl(mode string) {
	var b strings.Builder
	fmt.Fprintf(&b, "mode=%s\n", mode)
	for _, u := range vfUsers {
		fmt.Fprintf(&b, "user %s %s\n", u, w.dirsim.Password[u])
	}
	path := filepath.Join(w.dir, "authhelper.ctl")
	os.WriteFile(path, []byte(b.String()), 0o600)
	os.Setenv("VF_AUTHHELPER_CTL", path)
}

func (w *vfWorld) postReady() error {
	state := w.state
	if len(state.Config.Ldap.LDAPTargetURLs) > 0 && !state.Config.Ldap.DisablePasswordCache {
		if err := state.passwordChecker.UpdateStorage(state); err != nil {
			return err
		}
	}
	if state.ClientCAPool == nil {
		state.ClientCAPool = x509.NewCertPool()
	}
	for _, der := range state.caCertDer {
		c, err := x509.ParseCertificate(der)
		if err != nil {
			return err
		}
		state.ClientCAPool.AddCert(c)
	}
	c, err := x509.ParseCertificate(state.selfRoleCaCertDer)
	if err != nil {
		return err
	}
	state.ClientCAPool.AddCert(c)
	return nil
}

func (w *vfWorld) teardown() {
	w.sched.stop()
	if w.state != nil {
		if w.state.dbDone != nil {
			close(w.state.dbDone)
		}
	}
	// let the background loops observe the stop flag
	for i := 0; i < 3; i++ {
		time.Sleep(40 * time.Second)
		synctest.Wait()
	}
	if w.state != nil {
		if w.state.db != nil {
			w.state.db.Close()
		}
		if w.state.cacheDB != nil {
			w.state.cacheDB.Close()
		}
	}
	w.closeRaw()
	vfUnregisterDB(w.dbKey + "-p")
	vfUnregisterDB(w.dbKey + "-c")
	os.RemoveAll(w.dir)
}

func (w *vfWorld) now() time.Time { return time.Now() }

func (w *vfWorld) simSeconds() float64 { return time.Since(w.start).Seconds() }

func (w *vfWorld) logf(format string, a ...any) {
	w.res.Log = append(w.res.Log, fmt.Sprintf("%04d t=%.0fs ", w.stepIdx, w.simSeconds())+fmt.Sprintf(format, a...))
}

func (w *vfWorld) fault(kind string) { w.res.Faults[kind]++ }
func (w *vfWorld) probe(name string) { w.res.Probes[name]++ }

func (w *vfWorld) violate(prop, class, key, detail string) {
	for _, v := range w.res.Violations {
		if v.Prop == prop && v.Key == key {
			return
		}
	}
	w.res.Violations = append(w.res.Violations, vfViolation{Prop: prop, Class: class, Key: key, Detail: detail, Step: w.stepIdx})
	w.logf("!! VIOLATION %s %s: %s", prop, key, detail)
}

// ---- transport ----------------------------------------------------------------

type vfReq struct {
	Method string
	Path   string // may include ?query
	Form   url.Values
	Multi  map[string]string // multipart fields; key "@pubkeyfile" = file content
	JSON   []byte
	Raw    []byte // request body as is
	Cookies map[string]string
	PreCookies [][2]string // sent before Cookies in the Cookie header (duplicate names allowed)
	ConnAge    time.Duration // the TLS connection was opened (and the client certificate verified) this long before the request
	WriteFail  bool        // the requester's connection breaks while the response body is written (Write returns an error)
	Basic  *[2]string
	Header map[string]string
	Peer   string // ip (port added)
	Cert   *x509.Certificate // client certificate presented in the TLS handshake
	NoTLS  bool
	Admin  bool
	Host   string
}

type vfResp struct {
	Code    int
	Header  http.Header
	Body    []byte
	Cookies map[string]*http.Cookie
	Panic   any
	NoHandshake bool
}

type vfReqCtx struct {
	ended          time.Time // simulated instant at which the handler returned
	started        time.Time // simulated instant at which the handler was entered (requests can take simulated seconds under storage faults)
	req            *vfReq
	truth          []vfClaim // factors really verified during this request (from the simulated backends)
	pwChecks       []vfPwCheck
	backendTxns    int // second-factor backend transactions started/evaluated
	backendPw      int // password backend invocations
	dirAnswered    bool
	pushStartedFor []string
}

type vfClaim struct {
	Factor int
	User   string
}

type vfPwCheck struct {
	User string
	OK   bool
}

func (w *vfWorld) buildHTTP(r *vfReq) (*http.Request, *vfResp) {
	var body io.Reader
	ctype := ""
	switch {
	case r.Multi != nil:
		buf := &bytes.Buffer{}
		mw := multipart.NewWriter(buf)
		keys := make([]string, 0, len(r.Multi))
		for k := range r.Multi {
			keys = append(keys, k)
		}
		sort.Strings(keys)
		for _, k := range keys {
			if strings.HasPrefix(k, "@") {
				fw, _ := mw.CreateFormFile(k[1:], "somefilename.pub")
				fw.Write([]byte(r.Multi[k]))
			} else {
				mw.WriteField(k, r.Multi[k])
			}
		}
		mw.Close()
		body = buf
		ctype = mw.FormDataContentType()
	case r.Raw != nil:
		body = bytes.NewReader(r.Raw)
	case r.JSON != nil:
		body = bytes.NewReader(r.JSON)
		ctype = "application/json"
	case r.Form != nil:
		body = strings.NewReader(r.Form.Encode())
		ctype = "application/x-www-form-urlencoded"
	}
	host := r.Host
	if host == "" {
		host = vfHost
		if r.Admin {
			host = vfAdminHost
		}
	}
	req, err := http.NewRequest(r.Method, "https://"+host+r.Path, body)
	if err != nil {
		return nil, &vfResp{Code: 400, Header: http.Header{}}
	}
	req.RequestURI = r.Path
	if ctype != "" {
		req.Header.Set("Content-Type", ctype)
	}
	for _, pc := range r.PreCookies {
		req.AddCookie(&http.Cookie{Name: pc[0], Value: pc[1]})
	}
	ck := make([]string, 0, len(r.Cookies))
	for k := range r.Cookies {
		ck = append(ck, k)
	}
	sort.Strings(ck)
	for _, k := range ck {
		req.AddCookie(&http.Cookie{Name: k, Value: r.Cookies[k]})
	}
	if r.Basic != nil {
		req.SetBasicAuth(r.Basic[0], r.Basic[1])
	}
	for k, v := range r.Header {
		req.Header.Set(k, v)
	}
	peer := r.Peer
	if peer == "" {
		peer = "192.0.2.10"
	}
	if strings.Contains(peer, ":") && !strings.HasPrefix(peer, "[") {
		req.RemoteAddr = "[" + peer + "]:40000"
	} else {
		req.RemoteAddr = peer + ":40000"
	}
	if !r.NoTLS {
		cs := &tls.ConnectionState{Version: tls.VersionTLS13, HandshakeComplete: true, ServerName: vfHost}
		if r.Cert != nil {
			// what crypto/tls does for ClientAuth=VerifyClientCertIfGiven
			opts := x509.VerifyOptions{Roots: w.state.ClientCAPool, CurrentTime: time.Now().Add(-r.ConnAge),
				KeyUsages: []x509.ExtKeyUsage{x509.ExtKeyUsageClientAuth}, Intermediates: x509.NewCertPool()}
			if w.state.ClientCAPool == nil {
				opts.Roots = x509.NewCertPool()
			}
			chains, err := r.Cert.Verify(opts)
			if err != nil {
				return nil, &vfResp{Code: 0, NoHandshake: true, Header: http.Header{}}
			}
			cs.PeerCertificates = []*x509.Certificate{r.Cert}
			cs.VerifiedChains = chains
		}
		req.TLS = cs
	}
	return req, nil
}

// A request goes through three phases so that, in concurrent groups, the task
// goroutine runs nothing but product code and the simulated backends:
// prepare (scheduler goroutine), exec (task), finish/observe (scheduler).
type vfCall struct {
	w    *vfWorld
	r    *vfReq
	req  *http.Request
	ctx  *vfReqCtx
	rec  *httptest.ResponseRecorder
	resp *vfResp
	blocked bool // the handler did not return within the simulated watchdog time
	gate    func() bool // run in the task before the handler; false = the connection was refused (no handler runs)
	refused bool
}

func (w *vfWorld) prepare(r *vfReq) *vfCall {
	w.res.Requests++
	for _, m := range w.pendingMods {
		switch {
		case strings.HasPrefix(m, "precookie:"):
			// another session's cookie travels first in the same Cookie header
			if v := w.session(m[len("precookie:"):]).Cookies[authCookieName]; v != "" && r.Cookies[authCookieName] != "" && v != r.Cookies[authCookieName] {
				r.PreCookies = append(r.PreCookies, [2]string{authCookieName, v})
				w.probe("request-with-two-auth-cookies")
			}
		case strings.HasPrefix(m, "fwd:"):
			if r.Header == nil {
				r.Header = map[string]string{}
			}
			r.Header["X-Forwarded-For"] = m[len("fwd:"):]
			r.Header["X-Real-Ip"] = m[len("fwd:"):]
		case strings.HasPrefix(m, "peer:"):
			r.Peer = m[len("peer:"):]
		case strings.HasPrefix(m, "connage:"):
			if d, err := time.ParseDuration(m[len("connage:"):]); err == nil && d > 0 {
				r.ConnAge = d
				w.probe("request-on-kept-alive-connection")
			}
		case m == "writefail":
			r.WriteFail = true
			w.fault("net.response.write.error")
		}
	}
	w.pendingMods = nil
	if w.primary != nil && (w.sched == nil || !w.sched.concur) {
		w.primary.takeWrites() // writes observed after this point belong to the request (effect attribution)
	}
	c := &vfCall{w: w, r: r, ctx: &vfReqCtx{req: r}, resp: &vfResp{Header: http.Header{}}}
	req, early := w.buildHTTP(r)
	if early != nil {
		c.resp = early
		return c
	}
	c.req = req
	c.rec = httptest.NewRecorder()
	return c
}

// exec runs the real handler stack in the calling goroutine.
func (c *vfCall) exec() {
	if c.req == nil {
		return
	}
	w := c.w
	if c.gate != nil && !c.gate() {
		c.refused = true
		return
	}
	c.ctx.started = time.Now()
	w.setCtx(c.ctx)
	func() {
		defer func() {
			if p := recover(); p != nil {
				c.resp.Panic = p
			}
		}()
		var rw http.ResponseWriter = c.rec
		if c.r.WriteFail {
			rw = &vfBrokenWriter{rec: c.rec}
		}
		if c.r.Admin {
			w.adm.ServeHTTP(rw, c.req)
		} else {
			w.svc.ServeHTTP(rw, c.req)
		}
	}()
	c.ctx.ended = time.Now()
	w.setCtx(nil)
}

// vfBrokenWriter is a response writer whose peer has gone: headers are accepted, every body write fails.  What
// the handler tried to send is kept (the oracles need to know what was signed), the requester receives nothing.
type vfBrokenWriter struct{ rec *httptest.ResponseRecorder }

func (b *vfBrokenWriter) Header() http.Header { return b.rec.Header() }
func (b *vfBrokenWriter) WriteHeader(c int)   { b.rec.WriteHeader(c) }
func (b *vfBrokenWriter) Write(p []byte) (int, error) {
	b.rec.Write(p)
	return 0, fmt.Errorf("http2: stream closed")
}

func (c *vfCall) finish() *vfResp {
	if c.req == nil {
		return c.resp
	}
	resp, rec := c.resp, c.rec
	if c.refused {
		resp.NoHandshake = true
		return resp
	}
	resp.Code = rec.Code
	if resp.Panic != nil {
		c.w.res.Panics++
		resp.Code = 500 // for the client a recovered handler panic is a dropped connection
	}
	resp.Header = rec.Header()
	resp.Body = rec.Body.Bytes()
	resp.Cookies = map[string]*http.Cookie{}
	for _, ck := range (&http.Response{Header: rec.Header()}).Cookies() {
		resp.Cookies[ck.Name] = ck
	}
	return resp
}

func (w *vfWorld) serve(r *vfReq) *vfResp {
	c := w.prepare(r)
	c.exec()
	return c.finish()
}

// the request context of whichever task is running (backends attach ground
// truth to it)
func (w *vfWorld) setCtx(c *vfReqCtx) {
	if t := w.sched.cur; t != nil {
		t.ctx = c
		return
	}
	w.cur = c
}

func (w *vfWorld) reqCtx() *vfReqCtx {
	if t := w.sched.cur; t != nil {
		if t.ctx != nil {
			return t.ctx
		}
	}
	return w.cur
}
