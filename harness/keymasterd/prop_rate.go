package main

// C14: password and one-time-code guessing is throttled.  A pure
// time/schedule property: bursts of attempts at generated fake instants
// against a counting password backend; the oracle is a token-bucket bound
// computed from the CONFIGURED burst and rate, never from code constants.

import (
	"fmt"
	"math/rand/v2"
	"net/url"
	"testing/synctest"
	"time"
)

type vfAttempt struct {
	At      time.Time
	Code    int
	Backend int
	Via     string
}

func init() {
	// N attempts at this very instant; A: via (form|basic|certgen|profile|mix); B: password (wrong|cur); User: name or "many"
	vfExtraOps["pwburst"] = func(w *vfWorld, st vfStep, p *vfPrepared) *vfPrepared {
		p.env = func() {
			for i := 0; i < int(st.N); i++ {
				user := st.User
				if user == "many" || user == "" {
					user = fmt.Sprintf("victim%d", (i*7+int(st.N))%23)
					if i%5 == 0 {
						user = vfUsers[i%len(vfUsers)]
					}
				}
				pw := "guess-" + fmt.Sprint(i)
				if st.B == "cur" {
					pw = w.dirsim.Password[user]
				}
				via := st.A
				if via == "mix" || via == "" {
					via = []string{"form", "basic", "certgen", "html", "profile"}[i%5]
				}
				var r *vfReq
				switch via {
				case "basic":
					r = &vfReq{Method: "POST", Path: "/api/v0/login", Basic: &[2]string{user, pw}, Form: url.Values{}}
				case "certgen":
					r = &vfReq{Method: "POST", Path: "/certgen/" + user, Basic: &[2]string{user, pw}, Multi: map[string]string{"@pubkeyfile": vfKey("user_p256_1").sshPub()}}
				case "profile":
					r = &vfReq{Method: "GET", Path: "/api/v0/vipAuth?OTP=123456", Basic: &[2]string{user, pw}}
				case "html":
					r = &vfReq{Method: "POST", Path: "/api/v0/login", Form: url.Values{"username": {user}, "password": {pw}}, Header: map[string]string{"Accept": "text/html"}}
				default:
					r = &vfReq{Method: "POST", Path: "/api/v0/login", Form: url.Values{"username": {user}, "password": {pw}}}
				}
				c := w.prepare(r)
				c.exec()
				resp := c.finish()
				w.attempts = append(w.attempts, vfAttempt{At: time.Now(), Code: resp.Code, Backend: c.ctx.backendPw, Via: via})
				if resp.Code == 429 {
					w.probe("limiter-tripped")
					if c.ctx.backendPw > 0 {
						w.violate("C14", "lookup-on-429", "lookup-on-429:"+via, "a 429 answer was preceded by a password backend lookup")
					}
				}
				if vfContainsSignedMaterial(resp.Body) != "" && st.B != "cur" {
					w.violate("C14", "guess-accepted", "guess-accepted", "a wrong password guess obtained signed material")
				}
			}
			w.logf("pwburst n=%d via=%s", st.N, st.A)
		}
		return p
	}
	vfExtraOps["sleep"] = func(w *vfWorld, st vfStep, p *vfPrepared) *vfPrepared {
		d, err := time.ParseDuration(st.D)
		if err != nil || d <= 0 {
			return nil
		}
		p.env = func() { time.Sleep(d); synctest.Wait() }
		return p
	}
	// TOTP guessing by an authenticated session: A = wrong | right; D = spacing before the attempt
	vfExtraOps["totpguess"] = func(w *vfWorld, st vfStep, p *vfPrepared) *vfPrepared {
		p.env = func() {
			if d, err := time.ParseDuration(st.D); err == nil && d > 0 {
				time.Sleep(d)
			}
			w.totpGuess(st.Sess, st.User, st.A == "right", st.B)
		}
		return p
	}
	// the next N calls on the primary store time out (a latency spike): the profile read of the next request is slow, the one after is fast again
	vfExtraOps["latency_spike"] = func(w *vfWorld, st vfStep, p *vfPrepared) *vfPrepared {
		p.env = func() {
			w.fault("db.primary.down.partial")
			w.primary.setDownCalls(int(st.N), 2500*time.Millisecond)
		}
		return p
	}
	// the password backend fails (directory unreachable / helper crashed) or recovers
	vfExtraOps["pwbackend"] = func(w *vfWorld, st vfStep, p *vfPrepared) *vfPrepared {
		p.env = func() {
			if w.pw != nil {
				w.pw.Fail = st.A == "fail"
				if w.pw.Fail {
					w.fault("pw.backend.error")
				}
			}
		}
		return p
	}
	// lock-out measurement: N consecutive failures (2.1 s apart), then correct codes at growing distances
	vfExtraOps["lockout_probe"] = func(w *vfWorld, st vfStep, p *vfPrepared) *vfPrepared {
		p.env = func() {
			pause, _ := time.ParseDuration(st.D)
			w.lockoutPause = pause
			w.lockoutReplay = ""
			if st.A == "replay" {
				// the newest code this user had accepted
				f := w.model.user(st.User)
				for c := range f.UsedTOTP {
					w.lockoutReplay = c
				}
			}
			w.lockoutProbe(st.Sess, st.User, int(st.N))
			w.lockoutPause, w.lockoutReplay = 0, ""
		}
		return p
	}

	vfProfiles["C14"] = &vfProfile{
		Gen:        genRatePlan,
		Nontrivial: func(res *vfResult) bool { return res.Probes["limiter-tripped"] > 0 || res.Probes["totp-evaluations"] > 3 },
		Rule:       "seeded schedules of password-attempt bursts (1-400 attempts per instant, five entry points, many user names, sequential and concurrent) separated by fake-time gaps of 0-120 s under a per-run configured burst (10-100) and rate (1-20/s); TOTP guessing schedules with spacings 0.1-3 s and lock-out probes; non-trivial = the limiter tripped at least once or more than three TOTP evaluations happened; distinct = distinct canonical event log",
		Final:      rateFinal,
		Setup: func(w *vfWorld) {
			w.observers = append(w.observers, func(p *vfPrepared, ctx *vfReqCtx, resp *vfResp) {
				if p.step.Op == "totp" {
					// every presentation counts for the two-second spacing, whichever step made it
					user := w.subjectOf(w.session(p.step.Sess))
					f := w.model.user(user)
					at := ctx.ended
					if at.IsZero() {
						at = time.Now()
					}
					if f.lastTOTPAttempt.IsZero() || at.Sub(f.lastTOTPAttempt) >= 2*time.Second || resp.Code == 200 {
						f.lastTOTPAttempt = at
					}
					if resp.Code == 200 {
						w.totpAcceptedAt(user, p.step.Par != 0, ctx.ended)
					}
				}
			})
		},
	}
}

func (w *vfWorld) totpSession(sess, user string) *vfSession {
	s := w.session(sess)
	if s.Cookies[authCookieName] == "" || w.subjectOf(s) != user {
		v, _ := w.state.genNewSerializedAuthJWT(user, AuthTypePassword, 15*3600)
		s.Cookies[authCookieName] = v
		now := time.Unix(time.Now().Unix(), 0)
		w.model.cookies[v] = &vfCookieInfo{Subject: user, Proven: AuthTypePassword, Carried: AuthTypePassword, AuthAt: now, Exp: now.Add(15 * time.Hour), Kind: "session"}
	}
	return s
}

// one TOTP presentation; returns whether the server accepted it
func (w *vfWorld) totpGuess(sess, user string, right bool, which string) bool {
	s := w.totpSession(sess, user)
	f := w.model.user(user)
	now := time.Now()
	code := "000002"
	if right {
		at := now
		switch which {
		case "prev":
			at = now.Add(-30 * time.Second)
		case "next":
			at = now.Add(30 * time.Second)
		}
		code = w.totpCode(user, at)
	} else if code == w.totpCode(user, now) {
		code = "000003"
	}
	fresh := right && !f.UsedTOTP[code]
	r := w.serve(&vfReq{Method: "POST", Path: "/api/v0/TOTPAuth", Cookies: map[string]string{authCookieName: s.Cookies[authCookieName]}, Form: url.Values{"OTP": {code}}})
	accepted := r.Code == 200
	w.probe("totp-evaluations")
	// an attempt less than 2 s after the last EVALUATED one must not be evaluated itself.  A request may wait
	// for storage before its code is looked at, so both instants are taken when the answer leaves.
	since := time.Now().Sub(f.lastTOTPAttempt)
	evaluated := f.lastTOTPAttempt.IsZero() || since >= 2*time.Second
	if accepted && !evaluated {
		w.violate("C14", "otp-spacing", "otp-spacing", fmt.Sprintf("a code was evaluated (and accepted) %.1fs after the previous evaluation for %s", since.Seconds(), user))
	}
	if accepted {
		f.lastAcceptedStep = now.Unix()/30 + 1 // the accepted code may have been the next period's
		w.totpAccepted(user, false)
		f.UsedTOTP[code] = true
		f.failsInARow = 0
	} else if !right && evaluated {
		f.failsInARow++
	}
	_ = fresh
	if evaluated || accepted {
		f.lastTOTPAttempt = time.Now() // the evaluation happened while the request was served (it may have waited for storage)
	}
	w.logf("totpguess user=%s right=%v -> %d", user, right, r.Code)
	return accepted
}

// lockoutProbe: n consecutive evaluated failures, then a correct unused code at
// the earliest otherwise-allowed instant; measures how long the user stays locked.
func (w *vfWorld) lockoutProbe(sess, user string, n int) {
	f := w.model.user(user)
	if !f.TOTPEnabled {
		return
	}
	// guesses in a code period at or before an accepted code are refused unevaluated
	// (one-time rule); they are not failures the lock-out has to count
	for time.Now().Unix()/30 <= f.lastAcceptedStep {
		time.Sleep(time.Duration(30-time.Now().Unix()%30)*time.Second + time.Second)
	}
	for i := 0; i < n; i++ {
		time.Sleep(2100 * time.Millisecond)
		if i == 4 && w.lockoutReplay != "" {
			// in between, a code that was accepted (and so consumed) earlier is presented again: refused, and no reason to forgive the failures
			s := w.totpSession(sess, user)
			w.serve(&vfReq{Method: "POST", Path: "/api/v0/TOTPAuth", Cookies: map[string]string{authCookieName: s.Cookies[authCookieName]}, Form: url.Values{"OTP": {w.lockoutReplay}}})
			w.model.user(user).lastTOTPAttempt = time.Now()
			time.Sleep(2100 * time.Millisecond)
		}
		if i == 4 && w.lockoutPause > 0 && i < n {
			// a patient guesser: four failures, a pause (well under an hour), then on with it - still "repeated failures"
			time.Sleep(w.lockoutPause)
			synctest.Wait()
		}
		w.totpGuess(sess, user, false, "")
	}
	start := time.Now()
	var locked time.Duration = -1
	for _, d := range []time.Duration{2100 * time.Millisecond, 31 * time.Second, 10 * time.Minute, 61 * time.Minute, 62 * time.Minute, 3 * time.Hour, 25 * time.Hour} {
		time.Sleep(d - time.Since(start))
		// a code of a period at or before the last accepted one is refused for being
		// one-time, not for a lock-out: wait for a fresh period
		for f.UsedTOTP[w.totpCode(user, time.Now())] || time.Now().Unix()/30 <= f.lastAcceptedStep {
			time.Sleep(time.Duration(30-time.Now().Unix()%30)*time.Second + time.Second)
		}
		if w.totpGuess(sess, user, true, "") {
			locked = time.Since(start)
			break
		}
	}
	w.probe("lockout-probed")
	w.logf("lockout after %d failures: first acceptance after %v", n, locked)
	if n >= 5 && locked >= 0 && locked <= 65*time.Second {
		w.violate("C14", "no-lockout", "no-lockout", fmt.Sprintf("after %d consecutive failed codes a correct code was accepted %.1fs later: no lock-out", n, locked.Seconds()))
	}
	if prev, ok := w.lockouts[n/5]; !ok || locked > prev {
		w.lockouts[n/5] = locked
	}
	if n >= 10 {
		// probing waits for a fresh code period (up to ~60 s): compare with that tolerance
		if l5, ok := w.lockouts[1]; ok && locked >= 0 && l5 >= 0 && locked+65*time.Second < l5 {
			w.violate("C14", "lockout-shrinks", "lockout-shrinks", fmt.Sprintf("lock-out after %d failures (%v) is shorter than after 5 (%v)", n, locked, l5))
		}
	}
}

// two accepted validations of one user's codes less than two seconds apart
// prove two evaluations inside the spacing window
func (w *vfWorld) totpAccepted(user string, concurrent bool) { w.totpAcceptedAt(user, concurrent, time.Now()) }

// at: the instant the accepting handler returned (members of a concurrent group are observed together afterwards)
func (w *vfWorld) totpAcceptedAt(user string, concurrent bool, at time.Time) {
	now := at
	if now.IsZero() {
		now = time.Now()
	}
	if last, ok := w.totpAcceptAt[user]; ok && now.Sub(last) < 2*time.Second && last.Sub(now) < 2*time.Second {
		key := "otp-spacing"
		if concurrent {
			key = "otp-spacing:concurrent"
		}
		w.violate("C14", "otp-spacing", key, fmt.Sprintf("two codes of %s were evaluated and accepted %.1fs apart", user, now.Sub(last).Seconds()))
	}
	w.totpAcceptAt[user] = now
	w.model.user(user).lastTOTPAttempt = now
}

func rateFinal(w *vfWorld) {
	// configured values (the loader clamps burst to >= 10 and rate to >= 1 by documentation of the defaults)
	burst := float64(w.cfg.Burst)
	rate := w.cfg.Rate
	if burst <= 0 {
		burst = 100
	}
	if rate <= 0 {
		rate = 10
	}
	calls := w.pwCalls
	worst := 0.0
	for i := 0; i < len(calls); i++ {
		// windows starting at call i; only ends at later calls matter
		for j := i; j < len(calls); j++ {
			dt := calls[j].Sub(calls[i]).Seconds()
			n := float64(j - i + 1)
			if over := n - (burst + rate*dt); over > worst+1e-9 {
				worst = over
			}
		}
		if len(calls) > 3000 {
			break // quadratic scan bounded; the first window covers the whole run
		}
	}
	if worst >= 1 {
		w.violate("C14", "backend-over-budget", "backend-over-budget",
			fmt.Sprintf("the password backend saw %.0f more lookups than burst(%v)+rate(%v)*elapsed allows in some window (%d lookups in total)", worst, burst, rate, len(calls)))
	}
}

func genRatePlan(r *rand.Rand, tier string) *vfPlan {
	p := &vfPlan{Cfg: vfCfg{TOTP: true, VIP: true, PwBackend: "counting", CertBackends: []string{"U2F", "TOTP"},
		WebUIBackends: []string{"U2F", "TOTP"}, Burst: 10 + r.IntN(91), Rate: float64(1 + r.IntN(20))}}
	if chance(r, 0.15) {
		p.Cfg.Burst, p.Cfg.Rate = 12, 2
	}
	add := func(s vfStep) { p.Steps = append(p.Steps, s) }
	if chance(r, 0.45) {
		// TOTP guessing
		add(vfStep{Op: "setup_totp", User: "alice"})
		if chance(r, 0.5) {
			add(vfStep{Op: "setup_totp", User: "bob"})
		}
		n := 4 + r.IntN(10)
		for i := 0; i < n; i++ {
			switch r.IntN(10) {
			case 0, 1, 2, 3:
				add(vfStep{Op: "totpguess", Sess: "t1", User: "alice", A: pick(r, []string{"wrong", "wrong", "right"}), D: pick(r, []string{"100ms", "500ms", "1s", "1900ms", "2100ms", "3s", "31s"}), B: pick(r, []string{"", "", "prev", "next"})})
			case 4:
				add(vfStep{Op: "totpguess", Sess: "t2", User: "bob", A: "right", D: "300ms"})
			case 5, 6:
				add(vfStep{Op: "lockout_probe", Sess: "t1", User: "alice", N: int64(pick(r, []int{5, 5, 10, 15})), D: pick(r, []string{"", "", "6m", "20m"}), A: pick(r, []string{"", "", "replay"})})
			case 8:
				// a storage latency spike under one guess, the next guess right behind it
				add(vfStep{Op: "sleep", D: "3s"})
				add(vfStep{Op: "latency_spike", N: 1}) // exactly the profile read of the next request
				add(vfStep{Op: "totpguess", Sess: "t1", User: "alice", A: "wrong", D: "100ms"})
				add(vfStep{Op: "totpguess", Sess: "t1", User: "alice", A: "right", D: pick(r, []string{"50ms", "100ms", "500ms"}), B: pick(r, []string{"", "next"})})
			case 7:
				// three valid codes presented at the same instant by three sessions of the same user
				add(vfStep{Op: "sleep", D: "3s"})
				add(vfStep{Op: "mintsession", Sess: "c1", User: "alice", N: int64(AuthTypePassword)})
				add(vfStep{Op: "mintsession", Sess: "c2", User: "alice", N: int64(AuthTypePassword)})
				add(vfStep{Op: "mintsession", Sess: "c3", User: "alice", N: int64(AuthTypePassword)})
				add(vfStep{Op: "totp", Sess: "c1", A: "prev", Par: 7})
				add(vfStep{Op: "totp", Sess: "c2", A: "cur", Par: 7})
				add(vfStep{Op: "totp", Sess: "c3", A: "next", Par: 7})
			default:
				add(vfStep{Op: "sleep", D: pick(r, []string{"1s", "10s", "10m", "61m", "25h"})})
			}
		}
		for i := 0; i < 30; i++ {
			p.Tape = append(p.Tape, r.IntN(6))
		}
		return p
	}
	if chance(r, 0.2) {
		// passwords are checked by a directory with several servers: what the limiter admits is counted as binds there
		p.Cfg.PwBackend, p.Cfg.LDAPServers, p.Cfg.NoPwCache = "ldap", pick(r, []int{2, 3}), chance(r, 0.5)
	}
	if chance(r, 0.3) {
		// the budget is spent down to a few attempts, then several guesses arrive at the same moment
		add(vfStep{Op: "pwburst", N: int64(p.Cfg.Burst - r.IntN(4)), A: "form", User: "many", B: "wrong"})
		k := 3 + r.IntN(4)
		for i := 0; i < k; i++ {
			add(vfStep{Op: "login", Sess: fmt.Sprintf("p%d", i), User: pick(r, []string{"alice", "bob", "mallory"}), A: "wrong", B: pick(r, []string{"form", "basic"}), Par: 9})
		}
		for i := 0; i < 60; i++ {
			p.Tape = append(p.Tape, r.IntN(6))
		}
	}
	n := 3 + r.IntN(8)
	for i := 0; i < n; i++ {
		switch r.IntN(10) {
		case 0, 1, 2, 3, 4, 5:
			if chance(r, 0.2) {
				add(vfStep{Op: "pwbackend", A: pick(r, []string{"fail", "fail", "ok"})})
			}
			add(vfStep{Op: "pwburst", N: int64(pick(r, []int{1, 5, 20, 60, 120, 250, 400})), A: pick(r, []string{"mix", "mix", "form", "basic", "certgen", "html", "profile"}), User: pick(r, []string{"many", "many", "alice"}), B: pick(r, []string{"wrong", "wrong", "wrong", "cur"})})
		default:
			add(vfStep{Op: "sleep", D: pick(r, []string{"100ms", "1s", "2s", "5s", "30s", "120s"})})
		}
	}
	return p
}
