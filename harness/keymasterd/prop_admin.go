package main

// C08: users manage only themselves; administration needs admin rights (+ a
// hardware-token factor for touching other users' tokens).  Admin-by-group is
// a cached directory verdict (5 min): needs clock and directory faults.

import (
	"bytes"
	"fmt"
	"math/rand/v2"
	"net/url"
	"strconv"
	"strings"
	"time"
)

type vfAdmReq struct {
	Op     string
	Actor  string
	Level  int
	Target string
	Before string // canonical stored profile of the target before the request
}

func init() {
	// directory group membership: User, A: add|remove, B: group
	vfExtraOps["dir_group"] = func(w *vfWorld, st vfStep, p *vfPrepared) *vfPrepared {
		p.env = func() {
			g := st.B
			if g == "" {
				g = vfAdminGroup
			}
			cur := w.dirsim.Groups[st.User]
			var out []string
			for _, x := range cur {
				if x != g {
					out = append(out, x)
				}
			}
			if st.A == "add" {
				out = append(out, g)
			}
			if st.A == "clear" { // the user loses every group (deprovisioned)
				out = nil
			}
			w.dirsim.Groups[st.User] = out
			w.groupChanged[st.User] = time.Now()
		}
		return p
	}
	vfExtraOps["dir_groups_server"] = func(w *vfWorld, st vfStep, p *vfPrepared) *vfPrepared {
		p.env = func() {
			w.dirsim.GroupSrv.Mode = st.A
			if st.A != "up" {
				w.fault("dir." + st.A)
				w.groupSrvDownSince = time.Now()
			} else {
				w.groupSrvUpSince = time.Now()
			}
		}
		return p
	}
	// Sess: the actor's session; A: operation; Target: target user; B: action/param
	vfExtraOps["admop"] = func(w *vfWorld, st vfStep, p *vfPrepared) *vfPrepared {
		s := w.session(st.Sess)
		actor := w.subjectOf(s)
		level := 0
		if ci := w.model.cookies[s.Cookies[authCookieName]]; ci != nil {
			level = ci.Carried
		}
		f := w.model.user(st.Target)
		var r *vfReq
		switch st.A {
		case "list":
			r = w.baseReq(s, "GET", "/users/")
		case "add":
			r = w.baseReq(s, "POST", "/admin/addUser")
			r.Form = url.Values{"username": {st.Target}}
		case "delete":
			r = w.baseReq(s, "POST", "/admin/deleteUser")
			r.Form = url.Values{"username": {st.Target}}
		case "newotp":
			r = w.baseReq(s, "POST", "/admin/newBoostrapOTP")
			r.Form = url.Values{"username": {st.Target}}
		case "viewprofile":
			path := "/profile/" + st.Target
			if st.Target == actor && st.B == "bare" {
				path = "/profile/"
			}
			r = w.baseReq(s, "GET", path)
			r.Header["Accept"] = "text/html"
		case "tok":
			var idx int64 = 1
			for _, t := range f.U2FTokens {
				idx = t.Index
			}
			if st.N != 0 {
				idx = st.N // explicit (possibly bogus) index
			}
			r = w.baseReq(s, "POST", "/api/v0/manageU2FToken")
			r.Form = url.Values{"username": {st.Target}, "index": {strconv.FormatInt(idx, 10)}, "action": {st.B}, "name": {"renamed by " + actor}}
		case "totptok":
			idx := f.TOTPIndex
			if st.N != 0 {
				idx = st.N
			}
			r = w.baseReq(s, "POST", "/api/v0/manageTOTPToken")
			r.Form = url.Values{"username": {st.Target}, "index": {strconv.FormatInt(idx, 10)}, "action": {st.B}, "name": {"renamed by " + actor}}
		case "regreq":
			r = w.baseReq(s, "GET", "/u2f/RegisterRequest/"+st.Target)
		case "regresp":
			if f.RegChallenge == "" {
				return nil
			}
			r = w.baseReq(s, "POST", "/u2f/RegisterResponse/"+st.Target)
			r.JSON = w.token("tok6").registerResponse(u2fAppID, f.RegChallenge)
		case "waregbegin":
			r = w.baseReq(s, "GET", "/webauthn/RegisterBegin/"+st.Target)
		default:
			return nil
		}
		p.call = w.prepare(r)
		p.intent.Op = "admop:" + st.A
		p.intent.Adm = &vfAdmReq{Op: st.A, Actor: actor, Level: level, Target: st.Target, Before: w.canonProfileFull(st.Target)}
		if st.A == "regreq" {
			p.after = func(resp *vfResp) {
				if resp.Code == 200 {
					var rr struct {
						RegisterRequests []struct {
							Challenge string `json:"challenge"`
						} `json:"registerRequests"`
					}
					if jsonUnmarshal(resp.Body, &rr) == nil && len(rr.RegisterRequests) > 0 {
						f.RegChallenge = rr.RegisterRequests[0].Challenge
					}
				}
			}
		}
		return p
	}
	vfProfiles["C08"] = &vfProfile{
		Gen:        genAdminPlan,
		Nontrivial: func(res *vfResult) bool { return res.Probes["adm-allowed"] > 0 && res.Probes["adm-denied"] > 0 },
		Rule:       "actors {self, other user, admin by name, admin by group, automation admin, anonymous} with sessions carrying random factor sets (with / without the hardware-token bit) x operations {list/add/delete users, new bootstrap OTP, view profile, enable/disable/rename/delete U2F and TOTP tokens by real and bogus index, U2F register request/response, WebAuthn register begin, automation certificate for configured / unconfigured identities} x targets; directory group membership changes, directory outages and clock advances around the 5-minute admin cache. non-trivial = the run contains allowed and denied operations; distinct = distinct canonical event log",
		Setup:      adminSetup,
	}
}

func (w *vfWorld) canonProfileFull(user string) string {
	jws, _, has := "", int64(0), false
	_ = jws
	_ = has
	rows := w.rawDB(profileDBFilename)
	var b []byte
	err := rows.QueryRow("SELECT profile_data FROM user_profile WHERE username = ?", user).Scan(&b)
	if err != nil {
		return "absent"
	}
	// registration challenges and pending secrets are random; compare what the statement is about
	return w.canonProfile(user)
}

// ground truth of "is an administrator": (verdict, certain)
func (w *vfWorld) adminTruth(user string) (bool, bool) {
	if user == "root" {
		return true, true
	}
	if user == "" {
		return false, true
	}
	member := false
	for _, g := range w.dirsim.Groups[user] {
		if g == vfAdminGroup {
			member = true
		}
	}
	if !w.cfg.GroupsLDAP {
		return false, true
	}
	certain := true
	if t, ok := w.groupChanged[user]; ok && time.Since(t) <= 5*time.Minute+time.Second {
		certain = false
	}
	// while the directory does not answer (or answered only recently again) the last known verdict may be served
	if w.dirsim.GroupSrv.Mode != "up" && w.dirsim.GroupSrv.Mode != "slow" {
		certain = false
	}
	if !w.groupSrvUpSince.IsZero() && time.Since(w.groupSrvUpSince) <= 5*time.Minute+time.Second {
		certain = false
	}
	return member, certain
}

func adminSetup(w *vfWorld) {
	w.observers = append(w.observers, func(p *vfPrepared, ctx *vfReqCtx, resp *vfResp) {
		ar := p.intent.Adm
		if ar == nil {
			return
		}
		ok := resp.Code >= 200 && resp.Code < 400
		if ar.Op == "viewprofile" {
			// a refusal may be rendered as a (200) login / second-factor page: only the profile page counts
			ok = resp.Code == 200 && bytes.Contains(resp.Body, []byte("Keymaster User Profile"))
		}
		isAdmin, certain := w.adminTruth(ar.Actor)
		hasU2F := ar.Level&AuthTypeU2F != 0
		need := 0
		for _, b := range w.cfg.WebUIBackends {
			need |= vfCertBackendBits[b]
		}
		sessionOK := ar.Actor != "" && ar.Level&need != 0
		self := ar.Actor == ar.Target
		allowed, judged := false, certain
		kind := ""
		switch ar.Op {
		case "list", "add", "delete", "newotp":
			allowed, kind = isAdmin, "admin-op-by-non-admin"
			// the admin gate also takes keymaster client certificates; sessions here are cookies
			if !sessionOK && ar.Level&AuthTypeKeymasterX509 == 0 {
				allowed, judged = false, true
			}
		case "viewprofile":
			allowed, kind = self || isAdmin, "viewed-other-profile"
			if self {
				judged = true
			}
			if !sessionOK {
				allowed, judged = false, true
			}
		case "tok", "totptok", "regreq", "regresp", "waregbegin":
			allowed, kind = self || (isAdmin && hasU2F), "modified-other"
			if self || !hasU2F {
				judged = true
			}
			if !self && isAdmin && !hasU2F {
				kind = "u2f-requirement-skipped"
			}
			if !sessionOK {
				allowed, judged = false, true
			}
		}
		if ok {
			w.probe("adm-allowed")
		} else {
			w.probe("adm-denied")
		}
		w.cell(fmt.Sprintf("C08|op=%s|self=%v|admin=%v/%v|u2f=%v|sess=%v|ok=%v", ar.Op, self, isAdmin, certain, hasU2F, sessionOK, ok))
		after := w.canonProfileFull(ar.Target)
		changed := after != ar.Before
		if !allowed && judged {
			if ok && (ar.Op != "regreq" || true) {
				if !isAdmin && kind == "admin-op-by-non-admin" && !certainNow(w, ar.Actor) {
					kind = "stale-admin-verdict"
				}
				w.violate("C08", kind, kind+":"+ar.Op, fmt.Sprintf("%s by %q (level %s, admin=%v) on %q was answered %d", ar.Op, ar.Actor, vfLevelString(ar.Level), isAdmin, ar.Target, resp.Code))
			}
			if changed {
				w.violate("C08", "modified-other", "profile-changed-by-denied:"+ar.Op, fmt.Sprintf("%s by %q on %q was denied (%d) but the stored profile changed", ar.Op, ar.Actor, ar.Target, resp.Code))
			}
			if bytes.Contains(resp.Body, []byte("-----BEGIN CERTIFICATE-----")) || (ar.Op == "viewprofile" && ok) {
				// covered above
			}
		}
		// stale verdict: a removed admin still admitted although the directory answered for more than 5 minutes since
		if ok && !isAdmin && certain && !self && ar.Actor != "root" {
			if t, had := w.groupChanged[ar.Actor]; had && time.Since(t) > 5*time.Minute+time.Second {
				w.violate("C08", "stale-admin-verdict", "stale-admin-verdict:"+ar.Op, fmt.Sprintf("%q was removed from the admin group %v ago but %s was still answered %d", ar.Actor, time.Since(t).Round(time.Second), ar.Op, resp.Code))
			}
		}
	})
	// automation certificates appended to refusals
	w.observers = append(w.observers, func(p *vfPrepared, ctx *vfReqCtx, resp *vfResp) {
		if p.intent.Role != nil && resp.Code != 200 && bytes.Contains(resp.Body, []byte("-----BEGIN CERTIFICATE-----")) {
			w.violate("C08", "automation-cert-unauthorised", "automation-cert-in-refusal", fmt.Sprintf("a refused (%d) automation certificate request still carries a certificate in its body", resp.Code))
		}
	})
}

func certainNow(w *vfWorld, user string) bool {
	_, c := w.adminTruth(user)
	return c
}

func genAdminPlan(r *rand.Rand, tier string) *vfPlan {
	p := &vfPlan{Cfg: vfCfg{TOTP: true, VIP: true, BootstrapOTP: true, PwBackend: "counting", GroupsLDAP: chance(r, 0.8),
		CertBackends: []string{"U2F", "TOTP"}, WebUIBackends: pick(r, [][]string{{"password"}, {"U2F", "TOTP"}, {"U2F", "TOTP", "password", "SymantecVIP"}, {"U2F"}})}}
	if p.Cfg.GroupsLDAP && chance(r, 0.3) {
		p.Cfg.GroupPrepend = "git-" // directory group names are prefixed; the configured admin group carries the prefix
	}
	add := func(s vfStep) { p.Steps = append(p.Steps, s) }
	lookalike := ""
	if p.Cfg.GroupPrepend != "" && chance(r, 0.5) {
		// the directory has a group of its own whose name already begins with the configured prefix; an ordinary user is in it
		lookalike = pick(r, []string{"mallory", "bob"})
		add(vfStep{Op: "dir_group", User: lookalike, A: "add", B: p.Cfg.GroupPrepend + vfAdminGroup})
	}
	add(vfStep{Op: "setup_totp", User: "alice"})
	add(vfStep{Op: "setup_u2f", User: "alice", Target: "tok1"})
	add(vfStep{Op: "setup_u2f", User: "bob", Target: "tok2"})
	add(vfStep{Op: "setup_totp", User: "bob"})
	actors := []string{"alice", "bob", "mallory", "root", "gadmin", "autoadmin"}
	if chance(r, 0.25) {
		// without user name normalisation "Root" and "Gadmin" are accounts of their own (and no administrators)
		p.Cfg.DisableNorm = true
		actors = []string{"alice", "Root", "mallory", "root", "gadmin", "Gadmin"}
	}
	levels := []int{AuthTypePassword, AuthTypePassword | AuthTypeTOTP, AuthTypePassword | AuthTypeU2F, AuthTypeU2F, AuthTypePassword | AuthTypeSymantecVIP,
		AuthTypePassword | AuthTypeOkta2FA, AuthTypePassword | AuthTypeBootstrapOTP, AuthTypeFederated | AuthTypeFIDO2, AuthTypePassword | AuthTypeTOTP | AuthTypeSymantecVIP | AuthTypeKeymasterX509, 0}
	sess := []string{"x1", "x2", "x3", "x4"}
	for i, s := range sess {
		add(vfStep{Op: "mintsession", Sess: s, User: actors[(i+r.IntN(6))%6], N: int64(pick(r, levels))})
	}
	if lookalike != "" {
		// ... and has a fully authenticated session
		add(vfStep{Op: "mintsession", Sess: pick(r, sess), User: lookalike, N: int64(AuthTypePassword | AuthTypeU2F)})
	}
	targets := []string{"alice", "bob", "mallory", "carol"}
	ops := []string{"list", "add", "delete", "newotp", "viewprofile", "tok", "tok", "totptok", "regreq", "regresp", "waregbegin"}
	n := 10 + r.IntN(20)
	for i := 0; i < n; i++ {
		switch x := r.IntN(100); {
		case x < 60:
			op := pick(r, ops)
			st := vfStep{Op: "admop", Sess: pick(r, append(sess, "anon")), A: op, Target: pick(r, targets), B: pick(r, []string{"Disable", "Enable", "Update", "Delete"})}
			if chance(r, 0.1) {
				st.N = pick(r, []int64{-1, 0, 99999999999, 946684801})
			}
			if op == "delete" && !chance(r, 0.3) {
				st.Target = "carol"
			}
			add(st)
		case x < 68:
			add(vfStep{Op: "mintsession", Sess: pick(r, sess), User: pick(r, actors), N: int64(pick(r, levels))})
		case x < 70:
			// a group administrator is deprovisioned; after the cache lifetime they must be refused
			gs := pick(r, sess)
			add(vfStep{Op: "mintsession", Sess: gs, User: "gadmin", N: int64(pick(r, []int{AuthTypePassword | AuthTypeU2F, AuthTypeU2F, AuthTypePassword | AuthTypeTOTP}))})
			add(vfStep{Op: "admop", Sess: gs, A: "list"})
			add(vfStep{Op: "dir_group", User: "gadmin", A: pick(r, []string{"clear", "remove", "clear"})})
			add(vfStep{Op: "advance", D: pick(r, []string{"5m2s", "6m", "4m", "20m"})})
			add(vfStep{Op: "admop", Sess: gs, A: pick(r, []string{"list", "delete", "newotp", "add"}), Target: "carol"})
		case x < 72:
			// a demoted group administrator keeps coming back more often than the cache lifetime: it must still end
			gs := pick(r, sess)
			add(vfStep{Op: "mintsession", Sess: gs, User: "gadmin", N: int64(pick(r, []int{AuthTypePassword | AuthTypeU2F, AuthTypeU2F}))})
			add(vfStep{Op: "admop", Sess: gs, A: "list"})
			add(vfStep{Op: "dir_group", User: "gadmin", A: pick(r, []string{"clear", "remove"})})
			for k := 0; k < 3+r.IntN(3); k++ {
				add(vfStep{Op: "advance", D: pick(r, []string{"2m", "3m", "4m"})})
				add(vfStep{Op: "admop", Sess: gs, A: pick(r, []string{"list", "list", "newotp", "add"}), Target: "carol"})
			}
		case x < 76:
			add(vfStep{Op: "dir_group", User: pick(r, []string{"gadmin", "gadmin", "mallory"}), A: pick(r, []string{"add", "remove", "clear"})})
			if p.Cfg.GroupPrepend != "" && chance(r, 0.5) {
				// a directory group whose own name already begins with the configured prefix
				add(vfStep{Op: "dir_group", User: pick(r, []string{"mallory", "bob"}), A: "add", B: p.Cfg.GroupPrepend + vfAdminGroup})
			}
		case x < 82:
			add(vfStep{Op: "dir_groups_server", A: pick(r, []string{"up", "down", "error", "up"})})
		case x < 92:
			add(vfStep{Op: "advance", D: pick(r, []string{"1s", "1m", "4m59s", "5m2s", "11m", "1h"})})
		default:
			add(vfStep{Op: "rolecert", Sess: pick(r, sess), A: pick(r, []string{"auto1", "auto2", "auto3", "alice", "root"}), L: []string{"10.0.0.0/8"}, B: "user_p256_3"})
		}
	}
	return p
}

func init() {
	_ = strings.TrimSpace
}
