package main

// vfsql: a database/sql driver that wraps the real mattn/go-sqlite3 driver.
// Every call made by storage.go passes through here, so the simulator can
// count it, park the calling task at the start of a storage operation, stall
// the primary on fake time, fail the k-th call, or "crash" at the k-th call
// (nothing after it reaches the file; the connections are then abandoned).

import (
	"context"
	"database/sql"
	"database/sql/driver"
	"errors"
	"fmt"
	"strings"
	"sync"
	"time"

	sqlite3 "github.com/mattn/go-sqlite3"
)

type vfDB struct {
	downCalls    int
	readsDownFor time.Duration
	downHits     int
	downCallsFor time.Duration
	name string // "primary" or "cache"

	mu        sync.Mutex
	calls     int           // driver calls seen since creation
	armed     bool          // fault armed
	faultAt   int           // fire when callsSinceArm == faultAt (1-based)
	faultKind string        // "error" | "crash"
	sinceArm  int
	fired     bool
	crashed   bool
	stallFor  time.Duration // >0: every call first sleeps this long (fake time)
	downFor   time.Duration // >0: every call sleeps this long and then fails (unreachable server)
	writes    []string      // non-SELECT statements executed (for effect attribution)
	callLog   []string      // kinds of calls since arm (for enumeration)
	counting  bool
}

var (
	vfDBs   = map[string]*vfDB{}
	vfDBsMu sync.Mutex
)

type vfDriver struct{ inner *sqlite3.SQLiteDriver }

func init() {
	sql.Register("vfsqlite3", &vfDriver{inner: &sqlite3.SQLiteDriver{}})
}

// DSN format: "<key>|<sqlite dsn>" where key identifies the vfDB.
func (d *vfDriver) Open(dsn string) (driver.Conn, error) {
	i := strings.IndexByte(dsn, '|')
	if i < 0 {
		return nil, errors.New("vfsql: bad dsn")
	}
	vfDBsMu.Lock()
	db := vfDBs[dsn[:i]]
	vfDBsMu.Unlock()
	if db == nil {
		return nil, errors.New("vfsql: unknown db " + dsn[:i])
	}
	if err := db.enter("open", "", false); err != nil {
		return nil, err
	}
	c, err := d.inner.Open(dsn[i+1:])
	if err != nil {
		return nil, err
	}
	return &vfConn{db: db, c: c.(*sqlite3.SQLiteConn)}, nil
}

func vfRegisterDB(key string, db *vfDB) {
	vfDBsMu.Lock()
	vfDBs[key] = db
	vfDBsMu.Unlock()
}

func vfUnregisterDB(key string) {
	vfDBsMu.Lock()
	delete(vfDBs, key)
	vfDBsMu.Unlock()
}

var errVfInjected = errors.New("vf: injected storage error (disk I/O error)")
var errVfCrashed = errors.New("vf: storage crashed")
var errVfDown = errors.New("vf: dial tcp primary-db: i/o timeout")

// enter is called at the start of every driver call.
//
//go:norace
func (db *vfDB) enter(kind, query string, opStart bool) error {
	if opStart {
		if s := vfCurSched; s != nil {
			s.park("db:" + db.name + ":" + kind)
		}
	}
	vfRaceOff()
	db.mu.Lock()
	db.calls++
	stall := db.stallFor
	down := db.downFor
	if db.readsDownFor > 0 && query != "" && strings.HasPrefix(strings.ToLower(strings.TrimSpace(query)), "select") {
		// reads time out (an overloaded primary), writes still get through
		db.downHits++
		down = db.readsDownFor
	}
	if db.downCalls > 0 {
		// a short outage: only the next few calls find the database unreachable
		db.downCalls--
		db.downHits++
		down = db.downCallsFor
	}
	var err error
	if db.crashed {
		err = errVfCrashed
	} else if db.armed && !db.fired {
		db.sinceArm++
		db.callLog = append(db.callLog, kind)
		if db.sinceArm == db.faultAt {
			db.fired = true
			if db.faultKind == "crash" {
				db.crashed = true
				err = errVfCrashed
			} else {
				err = errVfInjected
			}
		}
	} else if db.counting {
		db.sinceArm++
		db.callLog = append(db.callLog, kind)
	}
	if err == nil && query != "" {
		q := strings.ToLower(strings.TrimSpace(query))
		if !strings.HasPrefix(q, "select") && !strings.HasPrefix(q, "create") && !strings.HasPrefix(q, "pragma") {
			db.writes = append(db.writes, q)
		}
	}
	db.mu.Unlock()
	vfRaceOn()
	if down > 0 && err == nil {
		time.Sleep(down)
		return errVfDown
	}
	if stall > 0 && err == nil {
		time.Sleep(stall)
	}
	return err
}

func (db *vfDB) isCrashed() bool {
	db.mu.Lock()
	defer db.mu.Unlock()
	return db.crashed
}

func (db *vfDB) arm(kind string, at int) {
	db.mu.Lock()
	db.armed, db.faultKind, db.faultAt, db.sinceArm, db.fired = true, kind, at, 0, false
	db.callLog = nil
	db.mu.Unlock()
}

func (db *vfDB) disarm() (fired bool, seen int) {
	db.mu.Lock()
	defer db.mu.Unlock()
	fired, seen = db.fired, db.sinceArm
	db.armed = false
	db.counting = false
	return
}

func (db *vfDB) startCounting() {
	db.mu.Lock()
	db.counting, db.sinceArm, db.callLog = true, 0, nil
	db.mu.Unlock()
}

func (db *vfDB) setStall(d time.Duration) {
	db.mu.Lock()
	db.stallFor = d
	db.mu.Unlock()
}

func (db *vfDB) setDown(d time.Duration) {
	db.mu.Lock()
	db.downFor = d
	db.mu.Unlock()
}

func (db *vfDB) setReadsDown(d time.Duration) {
	db.mu.Lock()
	if d > 0 {
		db.downHits = 0
	}
	db.readsDownFor = d
	db.mu.Unlock()
}

func (db *vfDB) setDownCalls(n int, d time.Duration) {
	db.mu.Lock()
	if n > 0 {
		db.downHits = 0
	}
	db.downCalls, db.downCallsFor = n, d
	db.mu.Unlock()
}

func (db *vfDB) takeWrites() []string {
	db.mu.Lock()
	w := db.writes
	db.writes = nil
	db.mu.Unlock()
	return w
}

type vfConn struct {
	db   *vfDB
	c    *sqlite3.SQLiteConn
	inTx bool
}

func (c *vfConn) Prepare(q string) (driver.Stmt, error) { return c.PrepareContext(context.Background(), q) }

func (c *vfConn) PrepareContext(ctx context.Context, q string) (driver.Stmt, error) {
	if err := c.db.enter("prepare", "", !c.inTx); err != nil {
		return nil, err
	}
	st, err := c.c.PrepareContext(ctx, q)
	if err != nil {
		return nil, err
	}
	return &vfStmt{conn: c, st: st.(*sqlite3.SQLiteStmt), q: q}, nil
}

func (c *vfConn) Close() error {
	// closing a connection with an open transaction discards it, which is
	// exactly what a process crash does to an uncommitted SQLite transaction
	return c.c.Close()
}

func (c *vfConn) Begin() (driver.Tx, error) { return c.BeginTx(context.Background(), driver.TxOptions{}) }

func (c *vfConn) BeginTx(ctx context.Context, opts driver.TxOptions) (driver.Tx, error) {
	if err := c.db.enter("begin", "", true); err != nil {
		return nil, err
	}
	tx, err := c.c.BeginTx(ctx, opts)
	if err != nil {
		return nil, err
	}
	c.inTx = true
	return &vfTx{conn: c, tx: tx}, nil
}

func (c *vfConn) ExecContext(ctx context.Context, q string, args []driver.NamedValue) (driver.Result, error) {
	if err := c.db.enter("exec", q, !c.inTx); err != nil {
		return nil, err
	}
	return c.c.ExecContext(ctx, q, args)
}

func (c *vfConn) QueryContext(ctx context.Context, q string, args []driver.NamedValue) (driver.Rows, error) {
	if err := c.db.enter("query", q, !c.inTx); err != nil {
		return nil, err
	}
	return c.c.QueryContext(ctx, q, args)
}

func (c *vfConn) Ping(ctx context.Context) error { return c.c.Ping(ctx) }

func (c *vfConn) IsValid() bool { return !c.db.isCrashed() }

type vfTx struct {
	conn *vfConn
	tx   driver.Tx
}

func (t *vfTx) Commit() error {
	if err := t.conn.db.enter("commit", "", false); err != nil {
		// the commit never reached the database
		t.conn.inTx = false
		if !t.conn.db.isCrashed() {
			t.tx.Rollback()
		}
		return err
	}
	t.conn.inTx = false
	return t.tx.Commit()
}

func (t *vfTx) Rollback() error {
	t.conn.inTx = false
	if t.conn.db.isCrashed() {
		// a crashed process rolls nothing back itself; SQLite discards the
		// transaction when the connection goes away
		return errVfCrashed
	}
	return t.tx.Rollback()
}

type vfStmt struct {
	conn *vfConn
	st   *sqlite3.SQLiteStmt
	q    string
}

func (s *vfStmt) Close() error  { return s.st.Close() }
func (s *vfStmt) NumInput() int { return s.st.NumInput() }

func (s *vfStmt) Exec(args []driver.Value) (driver.Result, error) {
	return nil, fmt.Errorf("vfsql: legacy Exec not supported")
}
func (s *vfStmt) Query(args []driver.Value) (driver.Rows, error) {
	return nil, fmt.Errorf("vfsql: legacy Query not supported")
}

func (s *vfStmt) ExecContext(ctx context.Context, args []driver.NamedValue) (driver.Result, error) {
	if err := s.conn.db.enter("stmt-exec", s.q, false); err != nil {
		return nil, err
	}
	return s.st.ExecContext(ctx, args)
}

func (s *vfStmt) QueryContext(ctx context.Context, args []driver.NamedValue) (driver.Rows, error) {
	if err := s.conn.db.enter("stmt-query", s.q, false); err != nil {
		return nil, err
	}
	return s.st.QueryContext(ctx, args)
}
