package main

// Monitor M-issue: every certificate leaving any endpoint is decoded and must
// be justified by the model (C01: who may get one; C02: what it binds; C03:
// how long it lives).

import (
	"bytes"
	"crypto/x509"
	"encoding/asn1"
	"encoding/pem"
	"fmt"
	"net/netip"
	"sort"
	"strings"
	"time"

	"golang.org/x/crypto/ssh"
)

type vfIssued struct {
	SSH  *ssh.Certificate
	X509 *x509.Certificate
}

func vfParseIssued(body []byte) *vfIssued {
	t := bytes.TrimSpace(body)
	if bytes.HasPrefix(t, []byte("-----BEGIN CERTIFICATE-----")) {
		blk, _ := pem.Decode(t)
		if blk == nil {
			return nil
		}
		c, err := x509.ParseCertificate(blk.Bytes)
		if err != nil {
			return nil
		}
		return &vfIssued{X509: c}
	}
	if bytes.Contains(t[:min(len(t), 64)], []byte("-cert-v01@openssh.com ")) {
		k, _, _, _, err := ssh.ParseAuthorizedKey(t)
		if err != nil {
			return nil
		}
		if c, ok := k.(*ssh.Certificate); ok {
			return &vfIssued{SSH: c}
		}
	}
	return nil
}

// anything signed at all in a body (used by C06/C09): certificates or JWS
func vfContainsSignedMaterial(body []byte) string {
	if vfParseIssued(body) != nil {
		return "certificate"
	}
	s := string(body)
	for _, f := range strings.FieldsFunc(s, func(r rune) bool {
		return !(r == '.' || r == '-' || r == '_' || (r >= 'a' && r <= 'z') || (r >= 'A' && r <= 'Z') || (r >= '0' && r <= '9'))
	}) {
		if strings.Count(f, ".") == 2 && strings.HasPrefix(f, "eyJ") {
			if vfJWTPayload(f) != nil {
				return "jws"
			}
		}
	}
	return ""
}

type vfCred struct {
	Kind    string // cookie | basic | usercert | ipcert
	Subject string
	Proven  int
	AuthAt  time.Time
	Valid   bool
	Truly   int  // factors the model saw this lineage's user really prove (cookies: may be less than what the cookie carries)
	Certain bool // well inside its validity window (token times are whole seconds): only then MUST it be served
}

// credentials the model accepts as presented with this request (ground truth)
func (m *vfModel) credsOf(ctx *vfReqCtx) []vfCred {
	var out []vfCred
	now := time.Now()
	if !ctx.started.IsZero() {
		now = ctx.started // the server looked at the credential when the request came in, not when the answer left
	}
	presented := []string{ctx.req.Cookies[authCookieName]}
	for _, pc := range ctx.req.PreCookies {
		if pc[0] == authCookieName {
			presented = append(presented, pc[1])
		}
	}
	for _, v := range presented {
		if v == "" {
			continue
		}
		if ci := m.cookies[v]; ci != nil {
			valid := !now.After(ci.Exp) && !now.Before(ci.AuthAt.Add(-time.Second)) // whole-second granularity of the token
			if ci.Kind == "cli" {
				valid = valid && true
			}
			certain := now.Before(ci.Exp.Add(-time.Second)) && !now.Before(ci.AuthAt.Add(time.Second)) && !time.Now().After(ci.Exp.Add(-time.Second))
			out = append(out, vfCred{Kind: "cookie", Subject: ci.Subject, Proven: ci.Carried, Truly: ci.Proven, AuthAt: ci.AuthAt, Valid: valid, Certain: valid && certain})
		}
	}
	if ctx.req.Cert != nil && !ctx.req.NoTLS {
		if a := m.artByCert(ctx.req.Cert); a != nil && a.Forged == "" && !containsStr(m.w.cfg.DenyKeys, a.KeyName) {
			// (a certificate over a deny-listed key is no credential)
			p := AuthTypeKeymasterX509
			if a.Kind == "ipcert" && vfPeerInNets(ctx.req.Peer, a.Nets) {
				p |= AuthTypeIPCertificate
			}
			at := a.AuthAt
			if a.Kind == "ipcert" {
				// an IP-restricted certificate is authenticated each time it is presented (handshake + netblock
				// check): that moment, not the day the 45-day certificate was minted, starts the 24 hours
				at = now
			}
			// the handshake may lie in the past (kept-alive connection): the certificate has to be valid now
			valid := !now.After(ctx.req.Cert.NotAfter) && !now.Before(ctx.req.Cert.NotBefore)
			out = append(out, vfCred{Kind: a.Kind, Subject: a.Subject, Proven: p, Truly: p, AuthAt: at, Valid: valid})
		}
	}
	for _, pc := range ctx.pwChecks {
		if pc.OK {
			out = append(out, vfCred{Kind: "basic", Subject: pc.User, Proven: AuthTypePassword, Truly: AuthTypePassword, AuthAt: now, Valid: true})
		}
	}
	return out
}

var vfCertBackendBits = map[string]int{
	"password": AuthTypePassword, "federated": AuthTypeFederated, "U2F": AuthTypeU2F,
	"SymantecVIP": AuthTypeSymantecVIP, "IPCertificate": AuthTypeIPCertificate, "TOTP": AuthTypeTOTP,
	"Okta2FA": AuthTypeOkta2FA, "BootstrapOTP": AuthTypeBootstrapOTP, "WebauthForCLI": AuthTypeWebauthForCLI,
}

func (m *vfModel) listedBits() int {
	l := 0
	for _, b := range m.w.cfg.CertBackends {
		l |= vfCertBackendBits[b]
	}
	return l
}

// observeCertgen judges a response of the user certificate endpoint.
func (m *vfModel) observeCertgen(ctx *vfReqCtx, in *vfIntent, resp *vfResp) {
	w := m.w
	cr := in.CertReq
	iss := vfParseIssued(resp.Body)
	issued := resp.Code == 200 && iss != nil
	listed := m.listedBits()
	creds := m.credsOf(ctx)
	pwListed := listed&AuthTypePassword != 0

	// C01: is there a credential that justifies issuing for the URL user?
	justified, unjudged := false, false
	var usedCred *vfCred
	for i := range creds {
		c := &creds[i]
		if !c.Valid || c.Subject != cr.URLUser {
			continue
		}
		if c.Proven&AuthTypeU2F != 0 || c.Proven&listed != 0 {
			justified = true
			usedCred = c
			break
		}
		if pwListed && c.Proven&AuthTypePassword == 0 {
			unjudged = true // statement leaves this cell open (see DESIGN C01)
			usedCred = c
		}
	}
	cell := fmt.Sprintf("C01|L=%s|cred=%s|type=%s|m=%s|issued=%v", strings.Join(sortedCopy(w.cfg.CertBackends), ","), credShape(creds, cr.URLUser), cr.Type, cr.Method, issued)
	w.cell(cell)
	if issued {
		if w.sealed {
			w.violate("C09", "signed-while-sealed", "signed-while-sealed:certgen", "certificate issued while the model says sealed")
		}
		if !justified && !unjudged {
			w.violate("C01", "issued-unjustified", "issued-unjustified:"+credKinds(creds, cr.URLUser),
				fmt.Sprintf("certificate for %s (type %s, method %s) issued; listed=%v creds=%s", cr.URLUser, cr.Type, cr.Method, w.cfg.CertBackends, credString(creds)))
		}
		if justified && usedCred != nil && usedCred.Kind == "cookie" && !(usedCred.Truly&AuthTypeU2F != 0 || usedCred.Truly&listed != 0) {
			// the cookie carries an acceptable factor, but nobody proved that factor for this session's user
			w.violate("C01", "issued-on-unproven-level", "issued-on-unproven-level",
				fmt.Sprintf("certificate for %s issued on a session carrying %s of which only %s was really proven by that user; listed=%v", cr.URLUser, vfLevelString(usedCred.Proven), vfLevelString(usedCred.Truly), w.cfg.CertBackends))
		}
		if cr.Method != "POST" {
			w.violate("C01", "issued-non-post", "issued-non-post:"+cr.Method, "certificate issued to a "+cr.Method+" request")
		}
		m.checkBinding(ctx, in, iss, usedCred)
		m.checkLifetime(ctx, in, iss, usedCred, 24*time.Hour, true)
		m.recordIssued(ctx, in, iss, usedCred)
	} else {
		if vfContainsSignedMaterial(resp.Body) != "" && resp.Code != 200 {
			w.violate("C01", "signed-in-error", "signed-in-error", "error response of certgen contains signed material")
		}
		// "A user who did complete an acceptable factor is served": only in the
		// clean case (one cookie credential, valid request, no fault in flight).
		if justified && w.cleanWindow() && len(creds) == 1 && creds[0].Kind == "cookie" && creds[0].Certain && cr.Method == "POST" && ctx.req.Cert == nil && len(ctx.req.PreCookies) == 0 &&
			in.Why == nil && vfServedFactors(creds[0].Proven, listed) {
			w.violate("C01", "not-served", fmt.Sprintf("not-served:%d", resp.Code),
				fmt.Sprintf("user %s with proven %s (listed %v) was refused with %d: %s", cr.URLUser, vfLevelString(creds[0].Proven), w.cfg.CertBackends, resp.Code, vfShort(strings.TrimSpace(string(resp.Body)))))
		}
	}
}

// only factors that exist as issuing paths are asserted in the "is served"
// direction (BootstrapOTP / federated are left open, see DESIGN C01)
func vfServedFactors(proven, listed int) bool {
	const served = AuthTypePassword | AuthTypeU2F | AuthTypeSymantecVIP | AuthTypeTOTP | AuthTypeOkta2FA | AuthTypeIPCertificate | AuthTypeWebauthForCLI
	if proven&AuthTypeU2F != 0 {
		return true
	}
	return proven&listed&served != 0
}

func sortedCopy(l []string) []string {
	c := append([]string(nil), l...)
	sort.Strings(c)
	return c
}

func credShape(creds []vfCred, urlUser string) string {
	if len(creds) == 0 {
		return "none"
	}
	var p []string
	for _, c := range creds {
		s := c.Kind + "[" + vfLevelString(c.Proven) + "]"
		if !c.Valid {
			s += "!expired"
		}
		if c.Subject != urlUser {
			s += "!other"
		}
		p = append(p, s)
	}
	sort.Strings(p)
	return strings.Join(p, "&")
}

// credential kinds and validity flags only (violation keys stay coarse; the detail has the levels)
func credKinds(creds []vfCred, urlUser string) string {
	if len(creds) == 0 {
		return "none"
	}
	var p []string
	for _, c := range creds {
		s := c.Kind
		if !c.Valid {
			s += "!expired"
		}
		if c.Subject != urlUser {
			s += "!other"
		}
		p = append(p, s)
	}
	sort.Strings(p)
	return strings.Join(p, "&")
}

func credString(creds []vfCred) string {
	var p []string
	for _, c := range creds {
		p = append(p, fmt.Sprintf("%s(%s,%s,valid=%v)", c.Kind, c.Subject, vfLevelString(c.Proven), c.Valid))
	}
	return strings.Join(p, " ")
}

// C02: what the certificate binds
func (m *vfModel) checkBinding(ctx *vfReqCtx, in *vfIntent, iss *vfIssued, cred *vfCred) {
	w := m.w
	cr := in.CertReq
	// the authenticated (normalised) user: the credential the model accepts; failing that, any valid credential presented
	subject := m.norm(cr.URLUser)
	if cred != nil {
		subject = m.norm(cred.Subject) // the normalised user, whatever spelling the session happens to carry
	} else {
		for _, c := range m.credsOf(ctx) {
			if c.Valid {
				subject = c.Subject
				break
			}
		}
	}
	var key *vfKeyT
	if cr.KeyName != "" {
		key = vfKey(cr.KeyName)
	}
	if iss.SSH != nil {
		c := iss.SSH
		if len(c.ValidPrincipals) != 1 || c.ValidPrincipals[0] != subject {
			w.violate("C02", "wrong-principal", "wrong-principal:ssh", fmt.Sprintf("principals %v, authenticated user %q", c.ValidPrincipals, subject))
		}
		if c.CertType != ssh.UserCert {
			w.violate("C02", "wrong-cert-type", "wrong-cert-type:ssh", fmt.Sprintf("CertType=%d", c.CertType))
		}
		if key != nil && !bytes.Equal(c.Key.Marshal(), key.sshWire()) {
			w.violate("C02", "wrong-key", "wrong-key:ssh", "certified key differs from the submitted key "+cr.KeyName)
		}
		// signature under a published CA key
		if !m.pubSSH[string(c.SignatureKey.Marshal())] {
			w.violate("C02", "unverifiable", "unverifiable:ssh-ca-not-published", "signing key is not among /public/sshca")
		} else {
			c2 := *c
			c2.Signature = nil
			raw := c2.Marshal()
			if err := c.SignatureKey.Verify(raw[:len(raw)-4], c.Signature); err != nil {
				w.violate("C02", "unverifiable", "unverifiable:ssh-signature", err.Error())
			}
		}
		want := map[string]string{"permit-X11-forwarding": "", "permit-agent-forwarding": "", "permit-port-forwarding": "", "permit-pty": "", "permit-user-rc": ""}
		for _, e := range w.cfg.SSHExt {
			k := vfExpandUser(e[0], subject)
			if k == "" {
				continue
			}
			want[k] = vfExpandUser(e[1], subject)
		}
		if !mapsEqual(want, c.Permissions.Extensions) {
			w.violate("C02", "extra-extension", "extra-extension", fmt.Sprintf("extensions %v, expected %v", c.Permissions.Extensions, want))
		}
		if len(c.Permissions.CriticalOptions) != 0 {
			w.violate("C02", "extra-extension", "critical-options", fmt.Sprintf("critical options %v", c.Permissions.CriticalOptions))
		}
	}
	if iss.X509 != nil {
		c := iss.X509
		if c.Subject.CommonName != subject {
			w.violate("C02", "wrong-principal", "wrong-principal:x509", fmt.Sprintf("CN %q, authenticated user %q", c.Subject.CommonName, subject))
		}
		if c.IsCA {
			w.violate("C02", "ca-flag", "ca-flag", "issued X.509 certificate is a CA")
		}
		hasClient := false
		for _, u := range c.ExtKeyUsage {
			if u == x509.ExtKeyUsageClientAuth {
				hasClient = true
			}
		}
		if !hasClient {
			w.violate("C02", "no-client-usage", "no-client-usage", "no client-authentication usage")
		}
		if key != nil {
			got, _ := x509.MarshalPKIXPublicKey(c.PublicKey)
			if !bytes.Equal(got, key.pkixDER()) {
				w.violate("C02", "wrong-key", "wrong-key:x509", "certified key differs from the submitted key "+cr.KeyName)
			}
		}
		m.verifyX509(c, "C02")
	}
	if cr.URLUser != subject {
		w.violate("C02", "cross-user-issued", "cross-user-issued", fmt.Sprintf("request for %q served with credential of %q", cr.URLUser, subject))
	}
}

func (m *vfModel) verifyX509(c *x509.Certificate, prop string) {
	at := time.Now()
	if c.NotAfter.After(c.NotBefore) {
		if at.After(c.NotAfter) || at.Before(c.NotBefore) {
			at = c.NotBefore.Add(c.NotAfter.Sub(c.NotBefore) / 2)
		}
		_, err := c.Verify(x509.VerifyOptions{Roots: m.pubX509, CurrentTime: at, KeyUsages: []x509.ExtKeyUsage{x509.ExtKeyUsageAny}})
		if err != nil {
			m.w.violate(prop, "unverifiable", "unverifiable:x509", "issued certificate does not verify under /public/x509ca: "+err.Error())
		}
	}
}

func mapsEqual(a, b map[string]string) bool {
	if len(a) != len(b) {
		return false
	}
	for k, v := range a {
		if bv, ok := b[k]; !ok || bv != v {
			return false
		}
	}
	return true
}

// the documented template language: ${USERNAME} and the bash-like character
// replacement ${USERNAME//x/y} / ${USERNAME/x/y}
func vfExpandUser(tmpl, user string) string {
	out := tmpl
	for {
		i := strings.Index(out, "${USERNAME")
		if i < 0 {
			break
		}
		j := strings.IndexByte(out[i:], '}')
		if j < 0 {
			break
		}
		expr := out[i+len("${USERNAME") : i+j]
		val := user
		if strings.HasPrefix(expr, "//") {
			p := strings.SplitN(expr[2:], "/", 2)
			if len(p) == 2 {
				val = strings.ReplaceAll(user, p[0], p[1])
			}
		} else if strings.HasPrefix(expr, "/") {
			p := strings.SplitN(expr[1:], "/", 2)
			if len(p) == 2 {
				val = strings.Replace(user, p[0], p[1], 1)
			}
		}
		out = out[:i] + val + out[i+j+1:]
	}
	out = strings.ReplaceAll(out, "$USERNAME", user)
	return out
}

// C03: validity interval
func (m *vfModel) checkLifetime(ctx *vfReqCtx, in *vfIntent, iss *vfIssued, cred *vfCred, cap time.Duration, userCert bool) {
	w := m.w
	now := time.Now()
	var start, end time.Time
	unbounded := false
	kind := "x509"
	if iss.SSH != nil {
		kind = "ssh"
		if iss.SSH.ValidBefore == ssh.CertTimeInfinity || iss.SSH.ValidBefore > 1<<62 {
			unbounded = true
		}
		start = time.Unix(int64(iss.SSH.ValidAfter), 0)
		end = time.Unix(int64(iss.SSH.ValidBefore), 0)
		if iss.SSH.ValidAfter > 1<<62 {
			unbounded = true
		}
	} else {
		start, end = iss.X509.NotBefore, iss.X509.NotAfter
	}
	if unbounded {
		w.violate("C03", "unbounded", "unbounded:"+kind, fmt.Sprintf("validity [%d,%d] is unbounded/wrapped", start.Unix(), end.Unix()))
		return
	}
	if !end.After(start) {
		w.probe("empty-validity")
		return // never valid: satisfies the statement
	}
	bound := now.Add(cap)
	why := "cap"
	if userCert {
		if in.CertReq != nil && in.CertReq.HasDur {
			if d, err := time.ParseDuration(in.CertReq.Duration); err == nil {
				if d < 0 {
					d = 0
				}
				if b := now.Add(d); b.Before(bound) {
					bound, why = b, "requested"
				}
			}
		}
		if cred != nil {
			if b := cred.AuthAt.Add(cap); b.Before(bound) {
				bound, why = b, "auth+24h"
			}
		}
	}
	slack := time.Second
	if end.After(bound.Add(slack)) {
		w.violate("C03", "too-long", "too-long:"+kind+":"+why,
			fmt.Sprintf("certificate valid until %v, bound (%s) is %v (now %v)", end.Unix(), why, bound.Unix(), now.Unix()))
	}
	if start.After(now.Add(slack)) {
		w.violate("C03", "starts-in-future", "starts-in-future:"+kind, fmt.Sprintf("validity starts %v, now %v", start.Unix(), now.Unix()))
	}
}

func (m *vfModel) recordIssued(ctx *vfReqCtx, in *vfIntent, iss *vfIssued, cred *vfCred) {
	if iss.X509 != nil {
		a := &vfArtefact{Kind: "usercert", Subject: iss.X509.Subject.CommonName, Cert: iss.X509, AuthAt: time.Now(), Exp: iss.X509.NotAfter}
		if in.CertReq != nil {
			a.KeyName = in.CertReq.KeyName
		}
		m.addArt(a)
	}
}

func vfIPInNets(peer string, nets []string) bool {
	ip, err := netip.ParseAddr(peer)
	if err != nil {
		return false
	}
	ip = ip.Unmap()
	for _, n := range nets {
		p, err := netip.ParsePrefix(n)
		if err != nil {
			continue
		}
		if p.Masked().Contains(ip) {
			return true
		}
	}
	return false
}

// ---- independent reader of the RFC 3779 address extension ----------------------

var vfOidIPDelegation = []int{1, 3, 6, 1, 5, 5, 7, 1, 7}

type vfIPFamily struct {
	Family []byte
	Addrs  []asn1.BitString
}

func vfExtractNets(c *x509.Certificate) ([]string, error) {
	for _, e := range c.Extensions {
		if !e.Id.Equal(vfOidIPDelegation) {
			continue
		}
		var fams []vfIPFamily
		rest, err := asn1.Unmarshal(e.Value, &fams)
		if err != nil {
			return nil, err
		}
		if len(rest) != 0 {
			return nil, fmt.Errorf("trailing bytes in address extension")
		}
		var out []string
		for _, f := range fams {
			// AFI (2 bytes, 1 = IPv4) + optional SAFI (1 byte)
			if len(f.Family) < 2 || len(f.Family) > 3 || f.Family[0] != 0 || f.Family[1] != 1 {
				return nil, fmt.Errorf("non-IPv4 family %x", f.Family)
			}
			for _, a := range f.Addrs {
				if a.BitLength > 32 || len(a.Bytes) > 4 {
					return nil, fmt.Errorf("prefix longer than 32 bits")
				}
				var b [4]byte
				copy(b[:], a.Bytes)
				p := netip.PrefixFrom(netip.AddrFrom4(b), a.BitLength)
				out = append(out, p.Masked().String())
			}
		}
		return out, nil
	}
	return nil, fmt.Errorf("no address extension")
}

func vfCanonNets(l []string) []string {
	var out []string
	for _, n := range l {
		p, err := netip.ParsePrefix(n)
		if err != nil {
			out = append(out, "invalid:"+n)
			continue
		}
		out = append(out, p.Masked().String())
	}
	sort.Strings(out)
	return out
}
