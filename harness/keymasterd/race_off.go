//go:build !race

package main

const vfRaceBuild = false

func vfRaceOff() {}
func vfRaceOn()  {}
