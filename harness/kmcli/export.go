package kmcli

// Exports for the simulation harness (overlay only).

import (
	"net/http"

	"github.com/Cloud-Foundations/golib/pkg/log"
	"github.com/Cloud-Foundations/keymaster/lib/client/config"
)

func VfSetupCerts(userName, homeDir string, cfg config.AppConfigFile, client *http.Client, logger log.DebugLogger) error {
	return setupCerts(userName, homeDir, cfg, client, logger)
}

func VfFilePrefix() string { return FilePrefix }
