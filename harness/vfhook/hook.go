// Package vfhook exists only in the build overlay used by /verif checks.
// Every variable is nil unless the simulation harness sets it, in which case
// the instrumented call sites divert to the simulator.
package vfhook

import (
	"crypto/tls"
	"crypto/x509"
	"net"
	"net/url"
	"os"
	"time"
)

// YieldFn is called (when set) before every RuntimeState mutex acquisition and
// at the head of every unconditional loop in cmd/keymasterd.
var YieldFn func(label string)

func Yield(label string) {
	if f := YieldFn; f != nil {
		f(label)
	}
}

var (
	// LDAPDialFn, when set, stands for the TLS dial of lib/authutil (getLDAPConnection)
	LDAPDialFn func(d *net.Dialer, network, addr string, cfg *tls.Config) (net.Conn, error)
	GetLDAPUserGroups     func(u url.URL, bindDN string, bindPassword string,
		timeoutSecs uint, rootCAs *x509.CertPool,
		username string,
		UserSearchBaseDNs []string, UserSearchFilter string,
		GroupSearchBaseDNs []string, GroupSearchFilter string) ([]string, error)
	GetLDAPUserAttributes func(u url.URL, bindDN string, bindPassword string,
		timeoutSecs uint, rootCAs *x509.CertPool,
		username string,
		UserSearchBaseDNs []string, UserSearchFilter string,
		attributes []string) (map[string][]string, error)

	// VipPostBytes stands for lib/vip's HTTPS POST to the Symantec VIP user services (SOAP in, SOAP out)
	VipPostBytes func(data []byte, targetURL string, contentType string) ([]byte, error)

	// ClientDialFn, when set, is the transport behind every net.Dial of lib/client/sshagent
	ClientDialFn func(network, addr string) (net.Conn, error)

	// observing hook (the function goes on): every certificate event handed to the notifier
	EventPublishCert func(certType string, certData []byte)
)

// ---- the keymaster client's disk (cmd/keymaster file writes are routed here by the generator) -----------------

// ClientFile is what the client may do with a file it created.
type ClientFile interface {
	Write(b []byte) (int, error)
	WriteString(s string) (int, error)
	Chmod(mode os.FileMode) error
	Sync() error
	Close() error
	Name() string
}

// ClientDisk, when set, stands between the client and the file system (faults: disk full, ...).
var ClientDisk interface {
	WriteFile(name string, data []byte, perm os.FileMode) error
	Create(name string) (ClientFile, error)
	Chmod(name string, mode os.FileMode) error
}

func ClientWriteFile(name string, data []byte, perm os.FileMode) error {
	if d := ClientDisk; d != nil {
		return d.WriteFile(name, data, perm)
	}
	return os.WriteFile(name, data, perm)
}

func ClientCreate(name string) (ClientFile, error) {
	if d := ClientDisk; d != nil {
		return d.Create(name)
	}
	return os.Create(name)
}

func ClientChmod(name string, mode os.FileMode) error {
	if d := ClientDisk; d != nil {
		return d.Chmod(name, mode)
	}
	return os.Chmod(name, mode)
}

// ClientDial stands where lib/client/sshagent calls net.Dial.
func ClientDial(network, addr string) (net.Conn, error) {
	if ClientDialFn != nil {
		return ClientDialFn(network, addr)
	}
	return net.Dial(network, addr)
}

// ClientDialTimeout stands where lib/client/sshagent calls net.DialTimeout.
func ClientDialTimeout(network, addr string, d time.Duration) (net.Conn, error) {
	if ClientDialFn != nil {
		return ClientDialFn(network, addr)
	}
	return net.DialTimeout(network, addr, d)
}

// LDAPDial stands where lib/authutil calls tls.DialWithDialer.
func LDAPDial(d *net.Dialer, network, addr string, cfg *tls.Config) (net.Conn, error) {
	if LDAPDialFn != nil {
		return LDAPDialFn(d, network, addr, cfg)
	}
	c, err := tls.DialWithDialer(d, network, addr, cfg)
	if err != nil {
		return nil, err
	}
	return c, nil
}
