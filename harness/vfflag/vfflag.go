// Package vfflag stands in for package flag inside the virtual copy of
// cmd/keymaster that the simulation links next to the daemon: the client's
// flags live on a private FlagSet so that they do not collide with the
// daemon's (both define -config).
package vfflag

import (
	"flag"
	"time"
)

var Set = flag.NewFlagSet("kmcli", flag.ContinueOnError)

var Usage = func() {}

func Bool(name string, value bool, usage string) *bool       { return Set.Bool(name, value, usage) }
func String(name string, value string, usage string) *string { return Set.String(name, value, usage) }
func Int(name string, value int, usage string) *int          { return Set.Int(name, value, usage) }
func Uint(name string, value uint, usage string) *uint       { return Set.Uint(name, value, usage) }
func Duration(name string, value time.Duration, usage string) *time.Duration {
	return Set.Duration(name, value, usage)
}
func Arg(i int) string { return Set.Arg(i) }
func Args() []string   { return Set.Args() }
func NArg() int        { return Set.NArg() }
func Parse()           {}
func PrintDefaults()   {}
