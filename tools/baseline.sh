#!/bin/bash
# usage: baseline.sh [repo-dir]   -- runs the repository's pinned test suite (guard off: no overlay)
# and compares with /root/.vp/BASELINE.json's stable_pass list.  Exit 0 iff all stable tests pass.
DIR=${1:-/repo}
unset GOSUMDB GOTOOLCHAIN; export GOFLAGS=-mod=mod GOPROXY=off
OUT=$(mktemp /var/tmp/baseline.XXXXXX.json)
# the cmd/keymasterd tests bind fixed local ports: when something else runs them at the same time tests fail for
# that reason alone, so a failing pass is repeated (up to 3 passes; a test counts as passing if it passed in one)
for attempt in 1 2 3; do
(cd "$DIR" && go test -mod=mod -json -vet=off -count=1 -timeout 25m ./... >> "$OUT" 2>/dev/null)
python3 - "$OUT" <<'PY'
import json,sys
passed=set()
for l in open(sys.argv[1]):
    try: e=json.loads(l)
    except Exception: continue
    if e.get('Action')=='pass' and e.get('Test'):
        passed.add(e['Package']+'::'+e['Test'])
b=json.load(open('/root/.vp/BASELINE.json'))
missing=[t for t in b['stable_pass'] if t not in passed]
print(f"baseline: {len(b['stable_pass'])-len(missing)}/{len(b['stable_pass'])} stable tests pass")
for t in missing: print("  MISSING:",t)
sys.exit(1 if missing else 0)
PY
RC=$?
[ $RC -eq 0 ] && break
[ $attempt -lt 3 ] && { echo "  (pass $attempt incomplete, repeating)"; sleep 15; }
done
rm -f "$OUT"
exit $RC
