#!/bin/bash
# usage: confirm_mutant.sh <mutant-dir> <demo-package-dir-relative-to-repo> [go test -run regexp]
# Confirms in a scratch worktree: patch applies, builds, pinned suite passes, demo fails with / passes without.
set -u
M=$1; PKG=${2:-cmd/keymasterd}; RUN=${3:-.}
WT=/tmp/confirm-$$
git -C /repo worktree add -q --detach $WT HEAD || exit 2
cleanup() { git -C /repo worktree remove --force $WT >/dev/null 2>&1; rm -rf $WT; }
trap cleanup EXIT
unset GOSUMDB GOTOOLCHAIN; export GOFLAGS=-mod=mod GOPROXY=off
cd $WT
DEMO=$(ls $M/demo*_test.go 2>/dev/null | head -1)
RACE=""; grep -q '"-race"\|-race' $M/meta.json 2>/dev/null && RACE="-race"
rundemo() { for i in 1 2 3; do out=$(cd $WT && go test $RACE -vet=off -count=1 -run "$RUN" ./$PKG 2>&1); if echo "$out" | grep -q "address already in use\|connection refused\|bind:"; then sleep 7; continue; fi; break; done; echo "$out" | tail -5; echo "$out" | grep -q "^ok" ; }
cp $DEMO $WT/$PKG/zz_demo_test.go
NAMES=$(grep -o "^func Test[A-Za-z0-9_]*" $DEMO | sed 's/func //' | paste -sd'|')
RUN="^($NAMES)\$"
echo "== demo WITHOUT patch (must pass)"; rundemo; R0=$?
PATCH=$M/patch.diff; [ -f $M/patch.rebased.diff ] && PATCH=$M/patch.rebased.diff; git apply $PATCH 2>/dev/null || git apply --3way $PATCH || { echo "PATCH DOES NOT APPLY"; exit 3; }
echo "== build"; go build ./cmd/keymasterd ./lib/... ./keymasterd/... ./eventmon/... 2>&1 | grep -v libudev | tail -3
echo "== demo WITH patch (must fail)"; rundemo; R1=$?
rm -f $WT/$PKG/zz_demo_test.go
echo "== pinned suite with patch"; /verif/tools/baseline.sh $WT | tail -4; R2=${PIPESTATUS[0]}
echo "RESULT demo_without_pass=$((1-R0)) demo_with_fail=$R1 suite_ok=$((1-R2))"
