#!/bin/bash
# usage: seedtest.sh <patch.diff> <PROP> [extra vfcheck args]
# applies a seeded defect to /repo, runs the property's check (no evidence written), reverts.
P=$(readlink -f "$1"); PROP=$2; shift 2
cd /verif && . ./env.sh
if ! git -C /repo diff --quiet; then echo "REPO DIRTY"; exit 2; fi
[ -f "${P%.diff}.rebased.diff" ] && P="${P%.diff}.rebased.diff"
git -C /repo apply "$P" 2>/dev/null || git -C /repo apply --3way "$P" 2>/dev/null || { git -C /repo reset -q --hard HEAD; echo "PATCH DOES NOT APPLY"; exit 3; }
git -C /repo reset -q 2>/dev/null
VERIF_REPLAY_DIR=/var/tmp/seedtest-replays ./bin/vfcheck $PROP --no-evidence --no-replay-files "$@" 2>&1 | cut -c1-400 | tail -8
RC=${PIPESTATUS[0]}
git -C /repo checkout -- . ; git -C /repo clean -fdq
echo "EXIT=$RC"
