module verif

go 1.24
